"""Translator for C12: regenerate the limit-relevant fragments of scheduler.py / step.py / builder.py.

Everything is read from the working tree of the repo on every run (imported constants for the
SQL text, the AST for Python shapes).  Any shape that is not recognised raises TranslatorError
(fail closed).  The output `GenLimits.v` contains definitions only:

* enum codes of StepState / Need,
* `dispatch_where`      : STEP_DISPATCH_WHERE as a Gallina boolean function,
* `select_extra`        : the conjuncts SELECT_NEXT_STEP adds (threshold, attached, resource guard),
* `res_blocked`         : the per-requirement body of RESOURCE_UNAVAILABLE (Z arithmetic),
* `guard_counted`       : which step states the SUM of RESOURCE_UNAVAILABLE counts,
* `seed_* / rec_*`      : the eight value expressions of FILL_SAFE_UPDATE,
* `holding_reset`       : the WHEN clause of trigger step_reset_holding,
* `dispatch_code`       : `_get_next_step`: CHECKING if has_hash else RUNNING,
* `release_guard`, `hold_step`, `release_step`: the counter arithmetic of Step.hold/release,
* `after_recycle_ops`   : Step.after_recycle translated statement by statement into (condition, action)
  pairs (see _after_recycle_ops); the model interprets the list,
* `partial_recycle_state`: the state Step.initialize_row writes,
* `hash_slot_free`, `job_slot_free`: the tests in front of start_hash_task and of pop_next_job /
  start_task in Builder.job_loop, each TRANSLATED as an expression (class _SlotTest: comparisons,
  and/or/not, + - max min, integer literals, inlined single-return helper methods/properties) over
  len(self.running_tasks) -> nrunning, self.njob -> njob and any int field of Builder that counts
  the calls of run_promoted_hash_jobs in progress -> nwaiting (_waiting_counters: default 0,
  written only as `self.X += 1; try: <await ...> finally: self.X -= 1` in that method).  A test
  that discounts parked tasks is therefore translated, and then refuted in Coq
  (proofs/LimitsProofs.v: hash_slot_free_sound / job_slot_free_sound fail, model search finds
  the history); only a vocabulary the model does not know fails closed,
* structural facts about who may start tasks and who may launch commands (checked here, emitted
  as documentation constants).
"""

from __future__ import annotations

import ast
import importlib
import re
import sys

from .astutil import REPO, TranslatorError, find_function, parse_module

CORE = "stepup/core"


# ---------------------------------------------------------------------------------------------
# A minimal SQL boolean/arithmetic expression parser -> Gallina
# ---------------------------------------------------------------------------------------------

TOKEN_RE = re.compile(r"\s*(?:(\d+)|([A-Za-z_][A-Za-z_0-9]*(?:\.[A-Za-z_][A-Za-z_0-9]*)?)|(<>|!=|<=|>=|=|<|>|\(|\)|,|-|\+))")
KEYWORDS = {"AND", "OR", "NOT", "IN", "IS", "NULL", "COALESCE", "EXISTS"}


def strip_sql_comments(sql: str) -> str:
    return re.sub(r"--[^\n]*", "", sql)


def norm(sql: str) -> str:
    s = re.sub(r"\s+", " ", strip_sql_comments(sql)).strip()
    return re.sub(r"\s+\)", ")", re.sub(r"\(\s+", "(", s))


def tokenize(sql: str):
    sql = strip_sql_comments(sql)
    pos, out = 0, []
    while pos < len(sql):
        if sql[pos:].strip() == "":
            break
        m = TOKEN_RE.match(sql, pos)
        if not m:
            raise TranslatorError(f"SQL fragment: cannot tokenize at {sql[pos:pos + 30]!r}")
        if m.group(1) is not None:
            out.append(("num", int(m.group(1))))
        elif m.group(2) is not None:
            w = m.group(2)
            if w.upper() in KEYWORDS and "." not in w:
                out.append(("kw", w.upper()))
            else:
                out.append(("id", w))
        else:
            out.append(("op", m.group(3)))
        pos = m.end()
    return out


class SqlExpr:
    """Recursive-descent parser producing Gallina text.

    `cols` maps a column reference to (gallina name, type) with type in {"bool", "N", "Z"};
    `nullable_group` (optional) = (set of column refs that are NULL together, gallina bool name):
    `X IS NULL` on such a column becomes that bool and `COALESCE(e, 1)` over such columns becomes
    `if <null> then true else e`.
    Integer comparisons are emitted in `num` (N or Z).
    """

    def __init__(self, toks, cols, num="N", nullable=None):
        self.toks, self.i, self.cols, self.num, self.nullable = toks, 0, cols, num, nullable
        self.used = set()

    def peek(self):
        return self.toks[self.i] if self.i < len(self.toks) else (None, None)

    def take(self, kind=None, val=None):
        t = self.peek()
        if t[0] is None or (kind and t[0] != kind) or (val is not None and t[1] != val):
            raise TranslatorError(f"SQL fragment: expected {kind} {val}, got {t}")
        self.i += 1
        return t

    def parse(self):
        e = self.p_or()
        if self.i != len(self.toks):
            raise TranslatorError(f"SQL fragment: trailing tokens {self.toks[self.i:self.i + 4]}")
        return e

    def p_or(self):
        parts = [self.p_and()]
        while self.peek() == ("kw", "OR"):
            self.take()
            parts.append(self.p_and())
        return parts[0] if len(parts) == 1 else "(" + " || ".join(parts) + ")"

    def p_and(self):
        parts = [self.p_not()]
        while self.peek() == ("kw", "AND"):
            self.take()
            parts.append(self.p_not())
        return parts[0] if len(parts) == 1 else "(" + " && ".join(parts) + ")"

    def p_not(self):
        if self.peek() == ("kw", "NOT"):
            self.take()
            return f"(negb {self.p_not()})"
        return self.p_cmp()

    def lit(self, n):
        return f"{n}%{self.num}"

    def p_cmp(self):
        if self.peek() == ("kw", "COALESCE"):
            self.take()
            self.take("op", "(")
            inner = self.p_or()
            self.take("op", ",")
            dflt = self.take("num")[1]
            self.take("op", ")")
            if self.nullable is None or dflt not in (0, 1):
                raise TranslatorError("SQL fragment: COALESCE outside a recognised nullable join")
            e = f"(if {self.nullable[1]} then {'true' if dflt else 'false'} else {inner})"
            return e
        left, lty = self.p_arith()
        t = self.peek()
        if t[0] == "op" and t[1] in ("=", "!=", "<>", "<", ">", "<=", ">="):
            self.take()
            right, rty = self.p_arith()
            if lty == "bool" or rty == "bool":
                raise TranslatorError("SQL fragment: comparison of boolean columns")
            ns = self.num
            table = {
                "=": f"({ns}.eqb {left} {right})", "!=": f"(negb ({ns}.eqb {left} {right}))",
                "<>": f"(negb ({ns}.eqb {left} {right}))", "<": f"({ns}.ltb {left} {right})",
                ">": f"({ns}.ltb {right} {left})", "<=": f"({ns}.leb {left} {right})",
                ">=": f"({ns}.leb {right} {left})",
            }
            return table[t[1]]
        neg = False
        if t == ("kw", "NOT") and self.toks[self.i + 1:self.i + 2] == [("kw", "IN")]:
            self.take()
            neg = True
            t = self.peek()
        if t == ("kw", "IN"):
            self.take()
            self.take("op", "(")
            vals = [self.take("num")[1]]
            while self.peek() == ("op", ","):
                self.take()
                vals.append(self.take("num")[1])
            self.take("op", ")")
            if lty == "bool":
                raise TranslatorError("SQL fragment: IN on a boolean column")
            e = "(" + " || ".join(f"({self.num}.eqb {left} {self.lit(v)})" for v in vals) + ")"
            return f"(negb {e})" if neg else e
        if t == ("kw", "IS"):
            self.take()
            isnot = False
            if self.peek() == ("kw", "NOT"):
                self.take()
                isnot = True
            self.take("kw", "NULL")
            ref = getattr(self, "_last_ref", None)
            if self.nullable is None or ref not in self.nullable[0]:
                raise TranslatorError(f"SQL fragment: IS NULL on non-nullable {ref}")
            return f"(negb {self.nullable[1]})" if isnot else self.nullable[1]
        if lty != "bool":
            raise TranslatorError(f"SQL fragment: integer expression {left} used as a condition")
        return left

    def p_arith(self):
        left, ty = self.p_prim()
        while self.peek()[0] == "op" and self.peek()[1] in ("-", "+"):
            op = self.take()[1]
            right, rty = self.p_prim()
            if ty == "bool" or rty == "bool":
                raise TranslatorError("SQL fragment: arithmetic on boolean columns")
            if self.num != "Z":
                raise TranslatorError("SQL fragment: arithmetic requires Z")
            left = f"({left} {op} {right})"
        return left, ty

    def p_prim(self):
        t = self.peek()
        if t[0] == "num":
            self.take()
            return self.lit(t[1]), "num"
        if t[0] == "id":
            self.take()
            if t[1] not in self.cols:
                raise TranslatorError(f"SQL fragment: unknown column {t[1]!r}")
            name, ty = self.cols[t[1]]
            self.used.add(t[1])
            self._last_ref = t[1]
            return name, ("bool" if ty == "bool" else "num")
        if t == ("op", "("):
            self.take()
            # either a parenthesised boolean or arithmetic expression
            save = self.i
            try:
                e = self.p_or()
                self.take("op", ")")
                return e, "bool"
            except TranslatorError:
                self.i = save
                e, ty = self.p_arith()
                self.take("op", ")")
                return e, ty
        raise TranslatorError(f"SQL fragment: unexpected token {t}")


def sql_to_gallina(sql, cols, num="N", nullable=None, require=()):
    p = SqlExpr(tokenize(sql), cols, num, nullable)
    e = p.parse()
    for r in require:
        if r not in p.used:
            raise TranslatorError(f"SQL fragment no longer mentions {r}")
    return e


# ---------------------------------------------------------------------------------------------
# Imports of the repo modules (working tree given by VERIF_REPO / PYTHONPATH)
# ---------------------------------------------------------------------------------------------


def _import(name):
    try:
        mod = importlib.import_module(name)
    except Exception as e:  # noqa: BLE001
        raise TranslatorError(f"cannot import {name}: {type(e).__name__}: {e}") from e
    path = getattr(mod, "__file__", "") or ""
    if not path.startswith(str(REPO)):
        raise TranslatorError(f"{name} imported from {path}, not from {REPO}")
    return mod


def _const(mod, name):
    if not hasattr(mod, name) or not isinstance(getattr(mod, name), str):
        raise TranslatorError(f"{mod.__name__}.{name} is not a string constant any more")
    return getattr(mod, name)


# ---------------------------------------------------------------------------------------------
# Individual fragments
# ---------------------------------------------------------------------------------------------


def tr_enums():
    enums = _import("stepup.core.enums")
    ss = {m.name: int(m.value) for m in enums.StepState}
    need = {m.name: int(m.value) for m in enums.Need}
    if set(ss) != {"PENDING", "RUNNING", "CHECKING", "SUCCEEDED", "FAILED"}:
        raise TranslatorError(f"StepState members changed: {sorted(ss)}")
    if set(need) != {"OPTIONAL", "DEFAULT", "TARGET", "PLAN"}:
        raise TranslatorError(f"Need members changed: {sorted(need)}")
    if len(set(ss.values())) != 5:
        raise TranslatorError("StepState values are not distinct")
    return ss, need


def tr_dispatch_where():
    step = _import("stepup.core.step")
    cols = {
        "step.state": ("state", "N"), "step._safe": ("safe", "bool"), "step._has_hash": ("has_hash", "bool"),
        "step._safe_ignoring_hold": ("safe_nh", "bool"), "step.deferred": ("deferred", "bool"),
        "step._implied_need": ("ineed", "N"), "step._ready": ("ready", "bool"),
    }
    e = sql_to_gallina(_const(step, "STEP_DISPATCH_WHERE"), cols, require=["step.state", "step._safe"])
    return ("Definition dispatch_where (state : N) (safe has_hash safe_nh deferred : bool) (ineed : N) "
            f"(ready : bool) : bool :=\n  {e}.")


def tr_select_next():
    sch = _import("stepup.core.scheduler")
    step = _import("stepup.core.step")
    sql = norm(_const(sch, "SELECT_NEXT_STEP"))
    where = norm(_const(step, "STEP_DISPATCH_WHERE"))
    resun = norm(_const(sch, "RESOURCE_UNAVAILABLE"))
    m = re.fullmatch(
        r"SELECT node\.i, node\.label, step\._has_hash FROM step INDEXED BY step_dispatch "
        r"JOIN node ON node\.i = step\.node WHERE (.*) ORDER BY (.*) LIMIT 1", sql)
    if not m:
        raise TranslatorError("SELECT_NEXT_STEP: statement shape not recognised")
    w = m.group(1)
    if not w.startswith(where + " AND "):
        raise TranslatorError("SELECT_NEXT_STEP: WHERE does not start with STEP_DISPATCH_WHERE")
    extra = w[len(where) + 5:]
    marker = f"NOT EXISTS ({resun})"
    if extra.count(marker) != 1:
        raise TranslatorError("SELECT_NEXT_STEP: resource guard is not `NOT EXISTS (RESOURCE_UNAVAILABLE)`")
    extra = extra.replace(marker, "NOT res_unavailable")
    if "?" not in extra or extra.count("?") != 1:
        raise TranslatorError("SELECT_NEXT_STEP: expected exactly one bound parameter (need threshold)")
    extra = extra.replace("?", "threshold")
    cols = {
        "step._implied_need": ("ineed", "N"), "threshold": ("threshold", "N"), "node.detached": ("detached", "bool"),
        "step._has_hash": ("has_hash", "bool"), "res_unavailable": ("res_unavailable", "bool"),
    }
    e = sql_to_gallina(extra, cols, require=["node.detached", "res_unavailable", "threshold"])
    # the bound parameter really is the need threshold
    tree = parse_module(f"{CORE}/scheduler.py")
    fn = find_function(tree, "_get_next_step", "Scheduler")
    src = ast.unparse(fn)
    if "self.db.execute(SELECT_NEXT_STEP, (self.workflow.need_threshold.value,))" not in src:
        raise TranslatorError("_get_next_step: SELECT_NEXT_STEP is not executed with the need threshold")
    if "state = StepState.CHECKING if has_hash else StepState.RUNNING" not in src:
        raise TranslatorError("_get_next_step: dispatch state is not `CHECKING if has_hash else RUNNING`")
    if "i, label, has_hash = row" not in src:
        raise TranslatorError("_get_next_step: row unpacking changed")
    order = m.group(2)
    return (f"Definition select_extra (ineed threshold : N) (detached has_hash res_unavailable : bool) : bool :=\n  {e}.",
            order)


def tr_resource_unavailable(ss):
    sch = _import("stepup.core.scheduler")
    sql = norm(_const(sch, "RESOURCE_UNAVAILABLE"))
    m = re.fullmatch(
        r"SELECT 1 FROM step_resource AS req LEFT JOIN available_resource AS avail ON avail\.name = req\.name "
        r"WHERE req\.node = node\.i AND \((.*)\)", sql)
    if not m:
        raise TranslatorError("RESOURCE_UNAVAILABLE: statement shape not recognised")
    body = m.group(1)
    sub = re.search(
        r"COALESCE\(\(SELECT SUM\(r2\.units\) FROM step_resource AS r2 JOIN step AS s2 ON s2\.node = r2\.node "
        r"WHERE r2\.name = req\.name AND (s2\.state (?:= \d+|IN \([\d, ]+\)))\), 0\)", body)
    if not sub or body.count("SELECT") != 1:
        raise TranslatorError("RESOURCE_UNAVAILABLE: the SUM over running steps is not recognised")
    counted = sql_to_gallina(sub.group(1), {"s2.state": ("state", "N")})
    body2 = body.replace(sub.group(0), "used_units")
    cols = {"avail.name": ("avail_name", "N"), "avail.units": ("avail_units", "Z"),
            "used_units": ("used", "Z"), "req.units": ("req", "Z")}
    e = sql_to_gallina(body2, cols, num="Z", nullable=({"avail.name"}, "avail_null"),
                       require=["avail.units", "used_units", "req.units", "avail.name"])
    return (f"Definition guard_counted (state : N) : bool :=\n  {counted}.",
            "Definition res_blocked (avail_null : bool) (avail_units used req : Z) : bool :=\n  "
            f"{e}.")


def tr_fill_safe():
    sch = _import("stepup.core.scheduler")
    sql = norm(_const(sch, "FILL_SAFE_UPDATE"))
    m = re.fullmatch(
        r"INSERT INTO safe_update\(i, safe, safe_nh\) WITH RECURSIVE trace\(i, safe, chain, safe_nh, chain_nh, depth\) AS \("
        r"SELECT s\.node, (.*) FROM step AS s JOIN node AS cnode ON cnode\.i = s\.node "
        r"LEFT JOIN step AS creator_step ON creator_step\.node = cnode\.creator WHERE s\._check_safe "
        r"UNION ALL SELECT sp\.node, (.*) FROM trace JOIN node AS product ON product\.creator = trace\.i "
        r"JOIN step AS sp ON sp\.node = product\.i\) "
        r"SELECT i, safe, safe_nh FROM \(SELECT i, safe, safe_nh, MAX\(depth\) FROM trace GROUP BY i\)", sql)
    if not m:
        raise TranslatorError("FILL_SAFE_UPDATE: statement shape not recognised")

    def split_top(s):
        parts, depth, cur = [], 0, ""
        for ch in s:
            if ch == "(":
                depth += 1
            elif ch == ")":
                depth -= 1
            if ch == "," and depth == 0:
                parts.append(cur.strip())
                cur = ""
            else:
                cur += ch
        parts.append(cur.strip())
        return parts

    seed = split_top(m.group(1))
    rec = split_top(m.group(2))
    if len(seed) != 5 or len(rec) != 5:
        raise TranslatorError("FILL_SAFE_UPDATE: expected four value columns and the depth in both arms")
    # duplicates per step are resolved by taking the row seeded at the topmost flagged ancestor
    if seed[4] != "0" or rec[4] != "trace.depth + 1":
        raise TranslatorError("FILL_SAFE_UPDATE: depth column is not 0 / trace.depth + 1")
    seed, rec = seed[:4], rec[:4]
    scols = {
        "creator_step._safe": ("csafe", "bool"), "creator_step._safe_ignoring_hold": ("csafe_nh", "bool"),
        "creator_step.state": ("cstate", "N"), "creator_step._holding": ("chold", "N"),
        "s.state": ("sstate", "N"), "s._holding": ("shold", "N"),
    }
    nullable = ({"creator_step._safe", "creator_step.state", "creator_step._holding",
                 "creator_step._safe_ignoring_hold"}, "cnull")
    names = ["seed_safe", "seed_chain", "seed_safe_nh", "seed_chain_nh"]
    out = []
    sig = "(cnull csafe csafe_nh : bool) (cstate chold sstate shold : N)"
    for n, s in zip(names, seed):
        out.append(f"Definition {n} {sig} : bool :=\n  {sql_to_gallina(s, scols, nullable=nullable)}.")
    rcols = {"trace.chain": ("chain", "bool"), "trace.chain_nh": ("chain_nh", "bool"),
             "sp.state": ("pstate", "N"), "sp._holding": ("phold", "N")}
    rnames = ["rec_safe", "rec_chain", "rec_safe_nh", "rec_chain_nh"]
    rsig = "(chain chain_nh : bool) (pstate phold : N)"
    for n, s in zip(rnames, rec):
        out.append(f"Definition {n} {rsig} : bool :=\n  {sql_to_gallina(s, rcols)}.")
    apply_sql = norm(_const(sch, "APPLY_SAFE_UPDATE"))
    if apply_sql != ("UPDATE step SET _safe = (SELECT safe FROM safe_update WHERE safe_update.i = step.node), "
                     "_safe_ignoring_hold = (SELECT safe_nh FROM safe_update WHERE safe_update.i = step.node) "
                     "WHERE step.node IN (SELECT i FROM safe_update)"):
        raise TranslatorError("APPLY_SAFE_UPDATE: statement changed")
    out.append("(* duplicate trace rows of one step: the row of MAX(depth), i.e. the one seeded at the topmost flagged ancestor *)")
    out.append("Definition safe_merge_deepest : bool := true.")
    return out


def tr_pop_next_job():
    """pop_next_job: draining check, then one transaction: meta updates, select, derive, set_state."""
    tree = parse_module(f"{CORE}/scheduler.py")
    fn = find_function(tree, "pop_next_job", "Scheduler")
    src = ast.unparse(fn)
    order = ["if self.draining:", "async with self.db:", "self._update_meta_safe()", "self._update_meta_after()",
             "self._update_meta_ready()", "result = self._get_next_step()", "step, state = result",
             "job = self._derive_job(step)", "step.set_state(state)", "return job"]
    pos = -1
    for item in order:
        p = src.find(item, pos + 1)
        if p < 0:
            raise TranslatorError(f"pop_next_job: `{item}` missing or out of order")
        pos = p
    withs = [n for n in ast.walk(fn) if isinstance(n, ast.AsyncWith)]
    if len(withs) != 1:
        raise TranslatorError("pop_next_job: expected exactly one transaction")
    inside = ast.unparse(withs[0])
    for item in order[2:]:
        if item not in inside:
            raise TranslatorError(f"pop_next_job: `{item}` is not inside the dispatch transaction")
    if any(isinstance(n, ast.Await) for n in ast.walk(withs[0]) if n is not withs[0]):
        raise TranslatorError("pop_next_job: an await inside the dispatch transaction")


def tr_triggers(ss):
    step = _import("stepup.core.step")
    schema = _const(step, "STEP_SCHEMA")
    m = re.search(r"CREATE TRIGGER IF NOT EXISTS step_reset_holding AFTER UPDATE OF state ON step\s+WHEN (.*?)\s+BEGIN\s+"
                  r"UPDATE step SET _holding = 0 WHERE node = NEW\.node;\s+END;", strip_sql_comments(schema), re.S)
    if not m:
        raise TranslatorError("trigger step_reset_holding not recognised")
    e = sql_to_gallina(m.group(1), {"NEW.state": ("new_state", "N"), "NEW._holding": ("holding", "N")},
                       require=["NEW.state", "NEW._holding"])
    if not re.search(r"_holding INTEGER NOT NULL CHECK\(_holding >= 0\) DEFAULT 0", schema):
        raise TranslatorError("column step._holding: declaration changed")
    if not re.search(r"units INTEGER NOT NULL CHECK\(units > 0\)", schema):
        raise TranslatorError("column step_resource.units: CHECK(units > 0) missing")
    if not re.search(r"PRIMARY KEY \(node, name\),\s+FOREIGN KEY \(node\) REFERENCES node\(i\) ON DELETE CASCADE\s+\) WITHOUT ROWID;\s+"
                     r"CREATE INDEX IF NOT EXISTS step_resource_name", schema):
        raise TranslatorError("table step_resource: primary key (node, name) not recognised")
    return f"Definition holding_reset (new_state holding : N) : bool :=\n  {e}."


def _method_src(cls, name, rel=f"{CORE}/step.py"):
    tree = parse_module(rel)
    return find_function(tree, name, cls)


def tr_hold_release():
    fn = _method_src("Step", "hold")
    src = norm(ast.unparse(fn))
    if "UPDATE step SET _holding = _holding + 1 WHERE node = ? RETURNING _holding" not in src:
        raise TranslatorError("Step.hold: counter update changed")
    if "if row[0] == 1: self._flag_checks_with_products()" not in src:
        raise TranslatorError("Step.hold: flagging on the 0 -> 1 transition changed")
    fn = _method_src("Step", "release")
    src = norm(ast.unparse(fn))
    m = re.search(r"UPDATE step SET _holding = _holding - 1 WHERE node = \? AND (_holding > 0) RETURNING _holding", src)
    if not m:
        raise TranslatorError("Step.release: counter update changed")
    if "if row is None: raise GraphError(" not in src:
        raise TranslatorError("Step.release: underflow is no longer rejected with GraphError")
    if "if row[0] == 0: self._flag_checks_with_products()" not in src:
        raise TranslatorError("Step.release: flagging on the 1 -> 0 transition changed")
    g = sql_to_gallina(m.group(1), {"_holding": ("holding", "N")})
    return [f"Definition release_guard (holding : N) : bool :=\n  {g}.",
            "Definition hold_step (holding : N) : N := (holding + 1)%N.",
            "Definition release_step (holding : N) : N := (holding - 1)%N."]


def _body_srcs(fn):
    body = [s for s in fn.body if not (isinstance(s, ast.Expr) and isinstance(s.value, ast.Constant))]
    return [norm(ast.unparse(s)) for s in body]


def _after_recycle_ops():
    """Step.after_recycle as a list of (condition, action) pairs, one or two per statement, in order.

    Conditions: CAlways, CFailed (`self.get_state() == StepState.FAILED`), CInFlight / CNotInFlight (the
    local `in_flight = self.in_flight_state() is not None`), CEnvDiffers (a test that reads only the
    `env_overrides` argument and `self.get_env_overrides()`: an oracle input of the model).
    Actions: `AUpdate z` (UPDATE step SET need, shell [, _holding = 0]: z says whether _holding is zeroed),
    AMarkPending (`self.graph.mark_step_pending(self)`: Workflow.mark_step_pending, pinned by
    tr_mark_step_pending: no-op on RUNNING/CHECKING, else set_state(PENDING)), ASetClaims
    (`self.set_resources(resources)`), ANone (a statement that writes only columns outside the model:
    set_env_overrides -> step.env_overrides, set_duration -> step.duration; both bodies are checked).
    Anything else: TranslatorError."""
    fn = _method_src("Step", "after_recycle")
    from .astutil import body_without_docstring
    tree = parse_module(f"{CORE}/step.py")
    for name, col in (("set_env_overrides", "env_overrides"), ("set_duration", "duration")):
        body = _body_srcs(find_function(tree, name, "Step"))
        if not body or body[-1] != f"self.db.execute('UPDATE step SET {col} = ? WHERE node = ?', ({'value' if col == 'env_overrides' else col}, self.i))" \
                or any("execute" in b for b in body[:-1]):
            raise TranslatorError(f"Step.{name}: no longer a single UPDATE of step.{col}")
    geo = _body_srcs(find_function(tree, "get_env_overrides", "Step"))
    if any("UPDATE" in b or "INSERT" in b or "DELETE" in b for b in geo):
        raise TranslatorError("Step.get_env_overrides writes to the database")

    def action(st):
        src = norm(ast.unparse(st))
        m = re.fullmatch(r"self\.db\.execute\('UPDATE step SET (.*?) WHERE node = \?', \((.*)\)\)", src)
        if m:
            cols = [c.strip() for c in m.group(1).split(",")]
            rest = [c for c in cols if c not in ("need = ?", "shell = ?", "_holding = 0")]
            if rest or not m.group(2).rstrip(",").endswith("self.i"):
                raise TranslatorError(f"Step.after_recycle: UPDATE writes columns the model does not expect: {rest}")
            return "AUpdate true" if "_holding = 0" in cols else "AUpdate false"
        if src == "self.graph.mark_step_pending(self)":
            return "AMarkPending"
        if src == "self.set_resources(resources)":
            return "ASetClaims"
        if src in ("self.set_env_overrides(env_overrides)", "self.set_duration(duration)"):
            return "ANone"
        raise TranslatorError(f"Step.after_recycle: statement not recognised: {src[:160]}")

    def condition(test):
        src = norm(ast.unparse(test))
        if src == "self.get_state() == StepState.FAILED":
            return "CFailed", "CAlways?"
        if src == "in_flight":
            return "CInFlight", "CNotInFlight"
        if src == "not in_flight":
            return "CNotInFlight", "CInFlight"
        if src == "duration is not None":
            return "CAlways", None          # only guards an ANone
        names = {n.id for n in ast.walk(test) if isinstance(n, ast.Name)}
        calls = {ast.unparse(n.func) for n in ast.walk(test) if isinstance(n, ast.Call)}
        attrs = {ast.unparse(n) for n in ast.walk(test) if isinstance(n, ast.Attribute)}
        if names <= {"env_overrides", "self"} and calls <= {"self.get_env_overrides"} \
                and attrs <= {"self.get_env_overrides"} and "env_overrides" in names:
            return "CEnvDiffers", None
        raise TranslatorError(f"Step.after_recycle: condition not recognised: {src[:160]}")

    ops, bound = [], False
    for st in body_without_docstring(fn):
        src = norm(ast.unparse(st))
        if src == "in_flight = self.in_flight_state() is not None":
            if ops:
                raise TranslatorError("Step.after_recycle: in_flight is not computed first")
            bound = True
            continue
        if isinstance(st, ast.If):
            c_then, c_else = condition(st.test)
            if c_then in ("CInFlight", "CNotInFlight") and not bound:
                raise TranslatorError("Step.after_recycle: in_flight used but not bound")
            if len(st.body) != 1 or len(st.orelse) > 1:
                raise TranslatorError(f"Step.after_recycle: compound branch: {src[:160]}")
            a_then = action(st.body[0])
            if src.startswith("if duration is not None") and a_then != "ANone":
                raise TranslatorError("Step.after_recycle: the duration test guards a write of the row")
            ops.append((c_then, a_then))
            if st.orelse:
                if c_else is None or c_else.endswith("?"):
                    raise TranslatorError(f"Step.after_recycle: else branch not recognised: {src[:160]}")
                ops.append((c_else, action(st.orelse[0])))
        elif isinstance(st, ast.Expr):
            ops.append(("CAlways", action(st)))
        else:
            raise TranslatorError(f"Step.after_recycle: statement not recognised: {src[:160]}")
    acts = [a for _, a in ops]
    if not any(a.startswith("AUpdate") for a in acts) or "ASetClaims" not in acts:
        raise TranslatorError("Step.after_recycle: need/shell/_holding update or set_resources missing")
    return ops


def tr_after_recycle(ss):
    """What re-declaring an existing detached step does to its row.

    Two shapes are recognised (anything else: fail closed):
    * the original one: Step.after_recycle zeroes _holding and replaces the step_resource rows,
      Step.initialize_row writes PENDING with the default _holding, Workflow.define_step sets the
      resources of the re-created step: whatever the state of the row;
    * the repaired one (`recycle_keeps_inflight`): all three consult Step.in_flight_state() (RUNNING or
      CHECKING) and leave state, _holding and step_resource of such a row alone.
    Independently, Workflow.define_step may refuse to declare a detached step whose job is in flight
    (`define_rejects_inflight`)."""
    ops = _after_recycle_ops()
    # the repaired shape: every write of _holding / step_resource is under `not in flight`
    writes = [(c, a) for c, a in ops if a in ("AUpdate true", "ASetClaims")]
    if all(c == "CNotInFlight" for c, _ in writes):
        keep_ar = True
    elif all(c == "CAlways" for c, _ in writes):
        keep_ar = False
    else:
        raise TranslatorError("Step.after_recycle: _holding and step_resource are written under different conditions: "
                              + "; ".join(f"({c}, {a})" for c, a in ops))
    fn = _method_src("Step", "set_resources")
    src = norm(ast.unparse(fn))
    if "self.db.execute('DELETE FROM step_resource WHERE node = ?', (self.i,))" not in src or \
            "self.db.executemany('INSERT INTO step_resource VALUES (?, ?, ?)', rows)" not in src:
        raise TranslatorError("Step.set_resources: no longer replaces all rows")
    # partial recycle: initialize_row deletes the row and writes a new one
    fn = _method_src("Step", "initialize_row")
    src = norm(ast.unparse(fn))
    if "self.db.execute('DELETE FROM step WHERE node = :node', {'node': self.i})" not in src:
        raise TranslatorError("Step.initialize_row: row is no longer deleted first")
    if "'state': StepState.PENDING.value," in src and "_holding" not in src and "in_flight" not in src:
        keep_ir = False
    elif ("in_flight = self.in_flight_state() self.db.execute('DELETE FROM step WHERE node = :node'" in src
          and "_implied_need, _check_after, _holding, _has_hash) VALUES(" in src
          and ":implied_need, 1, :holding, (SELECT EXISTS(SELECT 1 FROM step_hash WHERE node = :node))" in src
          and "'state': StepState.PENDING.value if in_flight is None else in_flight[0]," in src
          and "'holding': 0 if in_flight is None else in_flight[1]," in src
          and src.count("in_flight") == 6 and src.count("_holding") == 1):
        keep_ir = True
    else:
        raise TranslatorError("Step.initialize_row: state/_holding initialisation changed")
    # define_step: resources of the re-created (or new) step
    wtree = parse_module(f"{CORE}/workflow.py")
    dfn = find_function(wtree, "define_step", "Workflow")
    dsrc = norm(ast.unparse(dfn))
    create = ("step = self.create(Step, creator, command, workdir=workdir, need=need, shell=shell, "
              "duration=duration, _safe=_safe) ")
    if dsrc.count("set_resources") != 1 or dsrc.count("self.create(") != 1:
        raise TranslatorError("Workflow.define_step: expected one create and one set_resources call")
    if create + "step.set_resources(resources) step.set_env_overrides(env_overrides)" in dsrc:
        keep_ds = False
    elif create + ("if step.in_flight_state() is None: step.set_resources(resources) "
                   "step.set_env_overrides(env_overrides)") in dsrc:
        keep_ds = True
    else:
        raise TranslatorError("Workflow.define_step: the resources of a (re-)created step are no longer set right after create")
    if len({keep_ar, keep_ir, keep_ds}) != 1:
        raise TranslatorError(f"recycling of an in-flight step: after_recycle/initialize_row/define_step disagree "
                              f"(keep = {keep_ar}/{keep_ir}/{keep_ds})")
    keep = keep_ar
    stree = parse_module(f"{CORE}/step.py")
    has_ifs = any(isinstance(n, ast.FunctionDef) and n.name == "in_flight_state" for n in ast.walk(stree))
    if keep:
        ifs = _body_srcs(_method_src("Step", "in_flight_state"))
        if ifs != ["row = self.db.execute('SELECT state, _holding FROM step WHERE node = ?', (self.i,)).fetchone()",
                   "if row is None or row[0] not in (StepState.RUNNING.value, StepState.CHECKING.value): return None",
                   "return row"]:
            raise TranslatorError("Step.in_flight_state: body not recognised: " + " | ".join(ifs)[:300])
    elif has_ifs:
        raise TranslatorError("Step.in_flight_state exists but the recycle code does not use it")
    # the refusal of the re-declaration (the other repair)
    guard_assign = "in_flight = self.find(Step, step_label)"
    guard_test = ("in_flight is not None and in_flight.is_detached() and "
                  "(in_flight.get_state() in (StepState.RUNNING, StepState.CHECKING))")
    rej = False
    top = [n for n in dfn.body]
    for k, st in enumerate(top):
        if isinstance(st, ast.If) and "in_flight" in ast.unparse(st.test) and "in_flight_state" not in ast.unparse(st.test):
            ok = (norm(ast.unparse(st.test)) == guard_test and not st.orelse and len(st.body) == 1
                  and isinstance(st.body[0], ast.Raise) and ast.unparse(st.body[0].exc).startswith("GraphError(")
                  and k > 0 and norm(ast.unparse(top[k - 1])) == guard_assign)
            later = " ".join(norm(ast.unparse(x)) for x in top[k + 1:])
            if not ok or "self.try_recycle(" not in later or "self.create(" not in later:
                raise TranslatorError("Workflow.define_step: guard on a step in flight not recognised")
            rej = True
    n_inflight = dsrc.count("in_flight")
    if n_inflight != (4 if rej else 0) + (1 if keep else 0):
        raise TranslatorError("Workflow.define_step: unexpected use of `in_flight`")
    # try_recycle / create: which rows may be recycled
    tree = parse_module(f"{CORE}/trellis.py")
    tr = norm(ast.unparse(find_function(tree, "try_recycle", "Trellis")))
    if "if node is None or not detached or (not node.can_recycle(**kwargs)): return None" not in tr or \
            "node.reattach(creator) node.after_recycle(**kwargs)" not in tr:
        raise TranslatorError("Trellis.try_recycle: guard or sequence changed")
    cr = norm(ast.unparse(find_function(tree, "create", "Trellis")))
    for item in ["if not detached: raise ConsistencyError(", "node.del_all_sources()",
                 "for product in node.products(): product.detach()", "node.initialize_row(**kwargs)"]:
        if item not in cr:
            raise TranslatorError(f"Trellis.create: `{item}` missing")
    cr_fn = _method_src("Step", "can_recycle")
    crs = ast.unparse(cr_fn)
    if "get_state" in crs or "StepState" in crs:
        raise TranslatorError("Step.can_recycle: now inspects the step state (model must be revised)")
    # a step may not define one of its own (indirect) creators again: walk of the creator links + GraphError
    own = ("WITH RECURSIVE chain(i) AS (SELECT creator FROM node WHERE i = ? UNION SELECT node.creator FROM node "
           "JOIN chain ON node.i = chain.i) SELECT 1 FROM chain JOIN node ON node.i = chain.i WHERE node.kind = ? AND node.label = ?")
    rej_own = False
    for k, st in enumerate(top):
        if isinstance(st, ast.If) and "cannot define its own creator" in ast.unparse(st):
            body = " ".join(norm(ast.unparse(x)) for x in st.body)
            sqls = [norm(c) for x in st.body for c in ([n.value for n in ast.walk(x) if isinstance(n, ast.Constant) and isinstance(n.value, str)])]
            joined = norm("".join(c for c in sqls if "chain" in c or "SELECT" in c or "WHERE" in c))
            later = " ".join(norm(ast.unparse(x)) for x in top[k + 1:])
            if (norm(ast.unparse(st.test)) != "isinstance(creator, Step)" or st.orelse
                    or joined.replace(" ", "") != own.replace(" ", "")
                    or "self.db.execute(sql, (creator.i, Step.kind(), step_label)).fetchone() is not None" not in body
                    or "raise GraphError(" not in body or "self.try_recycle(" not in later):
                raise TranslatorError("Workflow.define_step: guard against defining an own creator not recognised")
            rej_own = True
    if dsrc.count("own creator") != (1 if rej_own else 0):
        raise TranslatorError("Workflow.define_step: unexpected mention of `own creator`")
    b = lambda v: "true" if v else "false"  # noqa: E731
    return [
        "(* Step.after_recycle, statement by statement: (condition, action) *)",
        "Inductive rcond := CAlways | CFailed | CEnvDiffers | CInFlight | CNotInFlight.",
        "Inductive ract := AUpdate (zero_holding : bool) | AMarkPending | ASetClaims | ANone.",
        "Definition after_recycle_ops : list (rcond * ract) :=\n  [" + "; ".join(f"({c}, {a})" for c, a in ops) + "].",
        f"Definition partial_recycle_state : N := {ss['PENDING']}%N.",
        "Definition recycle_inspects_state : bool := false.",
        "(* shape of the recycle code w.r.t. a step whose job is in flight (RUNNING/CHECKING): after_recycle,",
        "   initialize_row and define_step leave state, _holding and step_resource of such a row alone *)",
        f"Definition recycle_keeps_inflight : bool := {b(keep)}.",
        "(* Workflow.define_step refuses to declare a detached step again while its job is in flight *)",
        f"Definition define_rejects_inflight : bool := {b(rej)}.",
        "(* Workflow.define_step refuses a step that declares one of its own (indirect) creators again *)",
        f"Definition define_rejects_own_creator : bool := {b(rej_own)}.",
    ], {"recycle_keeps_inflight": keep, "define_rejects_inflight": rej}


def tr_mark_step_pending(ss):
    """Workflow.mark_step_pending, executed symbolically for each of the five step states: which state (if any)
    does it write into the step's own row?  Recognised statements: `state = step.get_state()`, tests over `state`
    (==, !=, in, not in, and/or/not), `return`, `pass`, `step.set_state(StepState.X[, deferred])`; any other
    statement is skipped provided it neither returns nor writes the state of `step` (file bookkeeping, logging).
    Result: `mark_pending_writes : N -> option N` (what the code does, whatever its layout); the proofs state what
    the model needs of it (mark_pending_translated)."""
    tree = parse_module(f"{CORE}/workflow.py")
    fn = find_function(tree, "mark_step_pending", "Workflow")
    from .astutil import body_without_docstring
    args = [a.arg for a in fn.args.args]
    if args != ["self", "step"]:
        raise TranslatorError(f"Workflow.mark_step_pending: parameters {args}")
    names = {f"StepState.{k}": v for k, v in ss.items()}

    class Unknown(Exception):
        pass

    def val(e, env):
        src = ast.unparse(e)
        if src in names:
            return names[src]
        if isinstance(e, ast.Name) and e.id in env:
            return env[e.id]
        if isinstance(e, (ast.Tuple, ast.List, ast.Set)):
            return [val(x, env) for x in e.elts]
        raise Unknown(src)

    def test(e, env):
        if isinstance(e, ast.BoolOp):
            vs = [test(v, env) for v in e.values]
            return all(vs) if isinstance(e.op, ast.And) else any(vs)
        if isinstance(e, ast.UnaryOp) and isinstance(e.op, ast.Not):
            return not test(e.operand, env)
        if isinstance(e, ast.Compare) and len(e.ops) == 1:
            l, r, op = val(e.left, env), val(e.comparators[0], env), e.ops[0]
            if isinstance(op, (ast.Eq, ast.Is)):
                return l == r
            if isinstance(op, (ast.NotEq, ast.IsNot)):
                return l != r
            if isinstance(op, ast.In):
                return l in r
            if isinstance(op, ast.NotIn):
                return l not in r
        raise Unknown(ast.unparse(e))

    def touches(node):
        """does the subtree return, or write the state of `step`?"""
        for n in ast.walk(node):
            if isinstance(n, ast.Return):
                return True
            if isinstance(n, ast.Call) and ast.unparse(n.func) in ("step.set_state", "step.mark_completed",
                                                                     "step.initialize_row", "step.after_recycle"):
                return True
            if isinstance(n, ast.Call) and ast.unparse(n.func) == "self.mark_step_pending" \
                    and n.args and ast.unparse(n.args[0]) == "step":
                return True
        return False

    def run(stmts, env, writes):
        """returns True when the function returned"""
        for st in stmts:
            if isinstance(st, ast.Pass):
                continue
            if isinstance(st, ast.Return):
                return True
            if isinstance(st, ast.Assign) and len(st.targets) == 1 and isinstance(st.targets[0], ast.Name):
                if ast.unparse(st.value) == "step.get_state()":
                    env[st.targets[0].id] = env["@state"]
                    continue
                if touches(st):
                    raise TranslatorError("Workflow.mark_step_pending: assignment not recognised: " + ast.unparse(st)[:120])
                env.pop(st.targets[0].id, None)
                continue
            if isinstance(st, ast.If):
                try:
                    t = test(st.test, env)
                except Unknown:
                    if touches(st):
                        raise TranslatorError("Workflow.mark_step_pending: a test the translator cannot evaluate guards a "
                                              "state write or a return: " + ast.unparse(st.test)[:120]) from None
                    continue
                if run(st.body if t else st.orelse, env, writes):
                    return True
                continue
            if isinstance(st, ast.Expr) and isinstance(st.value, ast.Call) and ast.unparse(st.value.func) == "step.set_state":
                a0 = st.value.args
                if not a0 or ast.unparse(a0[0]) not in names:
                    raise TranslatorError("Workflow.mark_step_pending: set_state argument not recognised")
                writes.append(names[ast.unparse(a0[0])])
                env["@state"] = writes[-1]
                continue
            if touches(st):
                raise TranslatorError("Workflow.mark_step_pending: statement not recognised: " + ast.unparse(st)[:120])
        return False

    table = {}
    for k, v in ss.items():
        writes = []
        run(body_without_docstring(fn), {"@state": v}, writes)
        table[k] = writes[-1] if writes else None
    arms = "".join(f"if N.eqb state {ss[k]}%N then {'None' if table[k] is None else f'Some {table[k]}%N'} else "
                   for k in ("PENDING", "RUNNING", "CHECKING", "SUCCEEDED", "FAILED"))
    return ("(* Workflow.mark_step_pending executed for each state: the state it writes into the step's row, if any *)\n"
            f"Definition mark_pending_writes (state : N) : option N :=\n  {arms}None."), table


class _SlotTest:
    """Python boolean expression over the Builder's counters -> Gallina bool over Z.

    Vocabulary: len(self.running_tasks) -> nrunning; self.njob -> njob; self.<X> for an int field X
    of Builder that counts the calls of run_promoted_hash_jobs in progress (see _waiting_counters)
    -> nwaiting; integer literals, + - (and max/min), comparisons (chained too), and/or/not,
    True/False, and calls self.m() of a method whose body is a single `return <expr>` (inlined).
    Anything else: TranslatorError (fail closed)."""

    CMP = {"Lt": "Z.ltb {a} {b}", "LtE": "Z.leb {a} {b}", "Gt": "Z.ltb {b} {a}", "GtE": "Z.leb {b} {a}",
           "Eq": "Z.eqb {a} {b}", "NotEq": "negb (Z.eqb {a} {b})"}

    def __init__(self, cls_node, waiting):
        self.cls, self.waiting, self.used, self.depth = cls_node, waiting, set(), 0

    def boolean(self, e):
        if isinstance(e, ast.BoolOp):
            op = " && " if isinstance(e.op, ast.And) else " || "
            return "(" + op.join(self.boolean(v) for v in e.values) + ")"
        if isinstance(e, ast.UnaryOp) and isinstance(e.op, ast.Not):
            return f"(negb {self.boolean(e.operand)})"
        if isinstance(e, ast.Constant) and isinstance(e.value, bool):
            return "true" if e.value else "false"
        if isinstance(e, ast.Compare):
            terms = [self.integer(e.left)] + [self.integer(c) for c in e.comparators]
            parts = []
            for i, op in enumerate(e.ops):
                k = type(op).__name__
                if k not in self.CMP:
                    raise TranslatorError(f"job_loop: comparison {k} in a slot test not recognised")
                parts.append("(" + self.CMP[k].format(a=terms[i], b=terms[i + 1]) + ")")
            return parts[0] if len(parts) == 1 else "(" + " && ".join(parts) + ")"
        if isinstance(e, ast.Call) and not e.args and not e.keywords and isinstance(e.func, ast.Attribute) \
                and ast.unparse(e.func.value) == "self":
            return self.inline(e.func.attr, self.boolean)
        raise TranslatorError(f"job_loop: slot test `{ast.unparse(e)}` is not a recognised boolean expression")

    def inline(self, name, how):
        self.depth += 1
        if self.depth > 4:
            raise TranslatorError("job_loop: slot test helpers nest too deeply")
        fns = [n for n in self.cls.body if isinstance(n, (ast.FunctionDef, ast.AsyncFunctionDef)) and n.name == name]
        if len(fns) != 1 or isinstance(fns[0], ast.AsyncFunctionDef):
            raise TranslatorError(f"job_loop: slot test calls self.{name}(), which is not a plain method of Builder")
        from .astutil import body_without_docstring
        body = body_without_docstring(fns[0])
        decos = [ast.unparse(d) for d in fns[0].decorator_list]
        if len(body) != 1 or not isinstance(body[0], ast.Return) or body[0].value is None or decos:
            raise TranslatorError(f"job_loop: Builder.{name} is not a single `return <expr>`")
        out = how(body[0].value)
        self.depth -= 1
        return out

    def integer(self, e):
        src = ast.unparse(e)
        if src == "len(self.running_tasks)":
            self.used.add("nrunning")
            return "nrunning"
        if src == "self.njob":
            self.used.add("njob")
            return "njob"
        if isinstance(e, ast.Attribute) and ast.unparse(e.value) == "self" and e.attr in self.waiting:
            self.used.add("nwaiting")
            return "nwaiting"
        if isinstance(e, ast.Constant) and isinstance(e.value, int) and not isinstance(e.value, bool):
            return f"({e.value})%Z" if e.value < 0 else f"{e.value}%Z"
        if isinstance(e, ast.BinOp) and isinstance(e.op, (ast.Add, ast.Sub)):
            op = "+" if isinstance(e.op, ast.Add) else "-"
            return f"({self.integer(e.left)} {op} {self.integer(e.right)})%Z"
        if isinstance(e, ast.UnaryOp) and isinstance(e.op, ast.USub):
            return f"(- {self.integer(e.operand)})%Z"
        if isinstance(e, ast.Call) and ast.unparse(e.func) in ("max", "min") and len(e.args) == 2 and not e.keywords:
            return f"(Z.{ast.unparse(e.func)} {self.integer(e.args[0])} {self.integer(e.args[1])})"
        if isinstance(e, ast.Call) and not e.args and not e.keywords and isinstance(e.func, ast.Attribute) \
                and ast.unparse(e.func.value) == "self":
            return self.inline(e.func.attr, self.integer)
        if isinstance(e, ast.Attribute) and ast.unparse(e.value) == "self":
            # a property of Builder with a single return is inlined as well
            props = [n for n in self.cls.body if isinstance(n, ast.FunctionDef) and n.name == e.attr
                     and [ast.unparse(d) for d in n.decorator_list] == ["property"]]
            if len(props) == 1:
                from .astutil import body_without_docstring
                body = body_without_docstring(props[0])
                if len(body) == 1 and isinstance(body[0], ast.Return) and body[0].value is not None:
                    self.depth += 1
                    if self.depth > 4:
                        raise TranslatorError("job_loop: slot test helpers nest too deeply")
                    out = self.integer(body[0].value)
                    self.depth -= 1
                    return out
        raise TranslatorError(f"job_loop: `{src}` in a slot test is not a counter the model knows "
                              "(len(self.running_tasks), self.njob, or a counter of the calls parked in "
                              "run_promoted_hash_jobs)")


def _waiting_counters(builder_tree):
    """Int fields of Builder whose value is the number of run_promoted_hash_jobs calls in progress:
    declared with default 0, written nowhere in stepup/core except `self.X += 1` directly in front of a
    `try:` that awaits the promoted hash jobs and whose `finally:` is exactly `self.X -= 1`, inside
    Builder.run_promoted_hash_jobs."""
    import os
    from .astutil import functions_with_parents
    cls = [n for n in ast.walk(builder_tree) if isinstance(n, ast.ClassDef) and n.name == "Builder"]
    if len(cls) != 1:
        raise TranslatorError("class Builder not found")
    cls = cls[0]
    cands = {}
    for n in cls.body:
        if isinstance(n, ast.AnnAssign) and isinstance(n.target, ast.Name) and ast.unparse(n.annotation) == "int" \
                and n.value is not None:
            v = n.value
            zero = (isinstance(v, ast.Constant) and v.value == 0) or (
                isinstance(v, ast.Call) and ast.unparse(v.func) in ("attrs.field", "field")
                and any(k.arg == "default" and isinstance(k.value, ast.Constant) and k.value.value == 0 for k in v.keywords)
                and any(k.arg == "init" and isinstance(k.value, ast.Constant) and k.value.value is False for k in v.keywords))
            if zero:
                cands[n.target.id] = []
    if not cands:
        return cls, set()
    # every write of an attribute with one of these names, anywhere in stepup/core
    for root, _, files in os.walk(REPO / CORE):
        for f in sorted(files):
            if not f.endswith(".py"):
                continue
            rel = os.path.relpath(os.path.join(root, f), REPO)
            try:
                t = ast.parse(open(os.path.join(root, f)).read())
            except SyntaxError as e:
                raise TranslatorError(f"cannot parse {rel}: {e}") from e
            for qn, fnode in functions_with_parents(t):
                for n in ast.walk(fnode):
                    tgts = []
                    if isinstance(n, ast.Assign):
                        tgts = n.targets
                    elif isinstance(n, (ast.AugAssign, ast.AnnAssign)):
                        tgts = [n.target]
                    elif isinstance(n, ast.Call) and ast.unparse(n.func) in ("setattr", "object.__setattr__") and len(n.args) >= 2 \
                            and isinstance(n.args[1], ast.Constant) and n.args[1].value in cands:
                        cands[n.args[1].value].append((rel, qn, "setattr"))
                    for tg in tgts:
                        for sub in ast.walk(tg):
                            if isinstance(sub, ast.Attribute) and sub.attr in cands:
                                cands[sub.attr].append((rel, qn, ast.unparse(n)))
    fn = find_function(builder_tree, "run_promoted_hash_jobs", "Builder")
    shapes = set()
    for i, st in enumerate(fn.body[:-1]):
        nxt = fn.body[i + 1]
        if isinstance(st, ast.AugAssign) and isinstance(st.op, ast.Add) and ast.unparse(st.value) == "1" \
                and isinstance(nxt, ast.Try) and not nxt.handlers and not nxt.orelse and len(nxt.finalbody) == 1:
            fin = nxt.finalbody[0]
            if isinstance(fin, ast.AugAssign) and isinstance(fin.op, ast.Sub) and ast.unparse(fin.value) == "1" \
                    and ast.unparse(fin.target) == ast.unparse(st.target) \
                    and any(isinstance(x, ast.Await) for b in nxt.body for x in ast.walk(b)) \
                    and all(not isinstance(x, ast.Await) for x in ast.walk(st)):
                # everything that awaits in this function lies inside that try
                outside = [x for j, b in enumerate(fn.body) if b is not nxt and not isinstance(b, (ast.FunctionDef, ast.AsyncFunctionDef))
                           for x in ast.walk(b) if isinstance(x, ast.Await)]
                if not outside and isinstance(st.target, ast.Attribute) and ast.unparse(st.target.value) == "self":
                    shapes.add(st.target.attr)
    out = set()
    for name, writes in cands.items():
        if not writes:
            continue            # a constant 0: not a counter
        ok = name in shapes and len(writes) == 2 and all(
            rel == f"{CORE}/builder.py" and qn == "Builder.run_promoted_hash_jobs" for rel, qn, _ in writes)
        if ok:
            out.add(name)
    return cls, out


def tr_builder():
    tree = parse_module(f"{CORE}/builder.py")
    fn = find_function(tree, "job_loop", "Builder")
    loops = [n for n in fn.body if isinstance(n, ast.While)]
    if len(loops) != 1:
        raise TranslatorError("job_loop: expected one top-level while loop")
    cls, waiting = _waiting_counters(tree)
    # Which methods of Builder register a task (write running_tasks), directly or through helpers: the call graph
    # inside the class decides, not the names (a helper extracted from start_task/start_hash_task is fine).
    methods = {n.name: n for n in cls.body if isinstance(n, (ast.FunctionDef, ast.AsyncFunctionDef))}

    def writes_slots(fnode):
        for n in ast.walk(fnode):
            if isinstance(n, (ast.Assign, ast.AugAssign, ast.AnnAssign)):
                tgts = n.targets if isinstance(n, ast.Assign) else [n.target]
                if any(isinstance(tg, ast.Subscript) and ast.unparse(tg.value) == "self.running_tasks" for tg in tgts):
                    return True
                if any(ast.unparse(tg) == "self.running_tasks" for tg in tgts):
                    return True
            if isinstance(n, ast.Call) and ast.unparse(n.func) in ("self.running_tasks.setdefault", "self.running_tasks.update"):
                return True
        return False

    calls = {m: {n.func.attr for n in ast.walk(f) if isinstance(n, ast.Call) and isinstance(n.func, ast.Attribute)
                 and ast.unparse(n.func.value) == "self" and n.func.attr in methods} for m, f in methods.items()}
    registrars = {m for m, f in methods.items() if writes_slots(f)}
    if "job_loop" in registrars:
        raise TranslatorError("job_loop writes running_tasks itself")
    grew = True
    while grew:
        grew = False
        for m in methods:
            if m != "job_loop" and m not in registrars and calls[m] & registrars:
                registrars.add(m)
                grew = True
    if not registrars:
        raise TranslatorError("no method of Builder registers a task in running_tasks")
    for m in methods:
        if m != "job_loop" and m not in registrars and calls[m] & registrars:
            raise TranslatorError(f"Builder.{m} registers a task outside job_loop")   # unreachable by construction
    reg_calls = {f"self.{m}" for m in registrars}
    guards = []
    tests = {}
    for st in loops[0].body:
        if isinstance(st, ast.If):
            inner_calls = [ast.unparse(n.func) for n in ast.walk(st) if isinstance(n, ast.Call)]
            if any(c in reg_calls for c in inner_calls):
                if st.orelse:
                    raise TranslatorError("job_loop: a guarded task start has an else branch")
                pops_job = "self.scheduler.pop_next_job" in inner_calls
                pops_hash = "self.hash_queue.pop_nowait" in inner_calls
                if pops_job == pops_hash:
                    raise TranslatorError("job_loop: a guarded start must take its work either from scheduler.pop_next_job "
                                          "or from hash_queue.pop_nowait")
                kind = "job" if pops_job else "hash"
                tr = _SlotTest(cls, waiting)
                tests[kind] = (tr.boolean(st.test), sorted(tr.used), ast.unparse(st.test))
                guards.append((None, kind, st))
    if sorted(g[1] for g in guards) != ["hash", "job"]:
        raise TranslatorError("job_loop: expected exactly one guarded hash start and one guarded job start")
    # every registering call in the loop body lies inside one of the guarded ifs, and each guarded
    # block `continue`s right after starting (one start per guard evaluation)
    for _, kind, st in guards:
        ncalls = [n for n in ast.walk(st) if isinstance(n, ast.Call) and ast.unparse(n.func) in reg_calls]
        if len(ncalls) != 1:
            raise TranslatorError("job_loop: more than one task start under one guard")
        inner = [x for x in ast.walk(st) if isinstance(x, ast.If) and x is not st]
        if len(inner) != 1 or not isinstance(inner[0].body[-1], ast.Continue):
            raise TranslatorError("job_loop: guarded start is not followed by `continue`")
    n_calls_loop = sum(1 for n in ast.walk(fn) if isinstance(n, ast.Call) and ast.unparse(n.func) in reg_calls)
    if n_calls_loop != 2:
        raise TranslatorError("job_loop: unguarded task start")
    # who writes running_tasks / who calls the starters / who launches commands, over stepup/core
    writers, starters, launchers, exec_callers, runcmd_callers = [], [], [], [], []
    import os
    for root, _, files in os.walk(REPO / CORE):
        for f in sorted(files):
            if not f.endswith(".py"):
                continue
            rel = os.path.relpath(os.path.join(root, f), REPO)
            try:
                t = ast.parse(open(os.path.join(root, f)).read())
            except SyntaxError as e:
                raise TranslatorError(f"cannot parse {rel}: {e}") from e
            from .astutil import functions_with_parents
            for qn, fnode in functions_with_parents(t):
                for n in ast.walk(fnode):
                    if isinstance(n, (ast.Assign, ast.AugAssign)):
                        tgts = n.targets if isinstance(n, ast.Assign) else [n.target]
                        for tg in tgts:
                            if isinstance(tg, ast.Subscript) and ast.unparse(tg.value).endswith("running_tasks"):
                                writers.append(f"{rel}:{qn}")
                    if isinstance(n, ast.Call):
                        fu = ast.unparse(n.func)
                        if any(fu.endswith("." + m) for m in registrars):
                            starters.append(f"{rel}:{qn}")
                        if fu == "launch_command" or fu.endswith(".launch_command"):
                            launchers.append(f"{rel}:{qn}")
                        if fu.endswith(".execute_job"):
                            exec_callers.append(f"{rel}:{qn}")
                        if fu.endswith("._run_command"):
                            runcmd_callers.append(f"{rel}:{qn}")
                        if fu.endswith("running_tasks.setdefault") or fu.endswith("running_tasks.update"):
                            writers.append(f"{rel}:{qn}")

    def uniq(l):
        return sorted(set(l))
    facts = {
        "running_tasks_writers": uniq(writers), "task_starters": uniq(starters),
        "launch_command_callers": uniq(launchers), "execute_job_callers": uniq(exec_callers),
        "run_command_callers": uniq(runcmd_callers),
    }
    bqn = {f"{CORE}/builder.py:Builder.{m}" for m in registrars}
    if not set(facts["running_tasks_writers"]) <= bqn:
        raise TranslatorError(f"structure: running_tasks is written outside Builder's registering methods: {facts['running_tasks_writers']}")
    outside = [c for c in facts["task_starters"] if c not in bqn and c != f"{CORE}/builder.py:Builder.job_loop"]
    if outside:
        raise TranslatorError(f"structure: a task is registered from {outside} (only Builder.job_loop may start tasks)")
    facts["task_starters"] = [c for c in facts["task_starters"] if c not in bqn]
    facts["task_registrars"] = sorted(bqn)
    expect = {
        "task_starters": [f"{CORE}/builder.py:Builder.job_loop"],
        "launch_command_callers": [f"{CORE}/executor.py:Executor._run_command"],
        "execute_job_callers": [f"{CORE}/job.py:RunJob.coro"],
        "run_command_callers": [f"{CORE}/executor.py:Executor.execute_job"],
    }
    for k, v in expect.items():
        if facts[k] != v:
            raise TranslatorError(f"structure: {k} = {facts[k]}, expected {v}")
    # RunJob.coro: command only when no stored hash
    jt = parse_module(f"{CORE}/job.py")
    rj = norm(ast.unparse(find_function(jt, "coro", "RunJob")))
    if "if self.runs_command: inner = executor.execute_job(" not in rj:
        raise TranslatorError("RunJob.coro: execute_job is not guarded by runs_command")
    rc = norm(ast.unparse(find_function(jt, "runs_command", "RunJob")))
    if "return self.step_hash is None" not in rc:
        raise TranslatorError("RunJob.runs_command changed")
    # promoted hash jobs do not touch running_tasks
    ph = ast.unparse(find_function(tree, "run_promoted_hash_jobs", "Builder"))
    if "running_tasks" in ph or any(f"self.{m}(" in ph for m in registrars):
        raise TranslatorError("run_promoted_hash_jobs touches the slot bookkeeping")
    td = norm(ast.unparse(find_function(tree, "_task_done", "Builder")))
    if "job = self.running_tasks.pop(task)" not in td:
        raise TranslatorError("_task_done no longer frees the slot")
    # run_promoted_hash_jobs is entered only from the amend_step handler (a running step's RPC)
    callers = []
    import os as _os
    from .astutil import functions_with_parents as _fwp
    for root, _, files in _os.walk(REPO / CORE):
        for f in sorted(files):
            if f.endswith(".py"):
                rel = _os.path.relpath(_os.path.join(root, f), REPO)
                for qn, fnode in _fwp(ast.parse(open(_os.path.join(root, f)).read())):
                    for n in ast.walk(fnode):
                        if isinstance(n, ast.Call) and ast.unparse(n.func).endswith(".run_promoted_hash_jobs"):
                            callers.append(f"{rel}:{qn}")
    facts["promoted_callers"] = uniq(callers)
    if facts["promoted_callers"] != [f"{CORE}/director.py:DirectorHandler.amend_step"]:
        raise TranslatorError(f"structure: promoted_callers = {facts['promoted_callers']}")
    facts["slot_tests"] = {k: {"source": v[2], "reads": v[1]} for k, v in tests.items()}
    facts["waiting_counters"] = sorted(waiting)
    text = "\n".join(
        f"(* Builder.job_loop, test in front of {'start_hash_task' if k == 'hash' else 'pop_next_job / start_task'}: `{tests[k][2]}` *)\n"
        f"Definition {k}_slot_free (nrunning nwaiting njob : Z) : bool :=\n  {tests[k][0]}."
        for k in ("hash", "job"))
    return text, facts


def tr_director():
    tree = parse_module(f"{CORE}/director.py")
    for name, call, wake in (("hold_dispatch", "step.hold()", False), ("release_dispatch", "step.release()", True)):
        fn = find_function(tree, name, "DirectorHandler")
        src = norm(ast.unparse(fn))
        if f"async with self.db: step = self.scheduler.get_job_step(job_i) {call}" not in src:
            raise TranslatorError(f"DirectorHandler.{name}: handler body changed")
        if wake and "self.builder.wake_job_loop.set()" not in src:
            raise TranslatorError("release_dispatch no longer wakes the job loop")


def generate():
    ss, need = tr_enums()
    parts = [
        "(* GENERATED by translator/gen_limits.py from stepup/core/{enums,step,scheduler,builder,trellis,",
        "   workflow,director,job,executor}.py. Definitions only. Do not edit. *)",
        "From Coq Require Import List NArith ZArith Bool Arith.",
        "Import ListNotations.",
        "Open Scope bool_scope.",
        "",
    ]
    for k in ("PENDING", "RUNNING", "CHECKING", "SUCCEEDED", "FAILED"):
        parts.append(f"Definition code_{k} : N := {ss[k]}%N.")
    for k in ("OPTIONAL", "DEFAULT", "TARGET", "PLAN"):
        parts.append(f"Definition need_{k} : N := {need[k]}%N.")
    parts.append("")
    parts.append(tr_dispatch_where())
    sel, order = tr_select_next()
    parts.append(sel)
    counted, blocked = tr_resource_unavailable(ss)
    parts += [counted, blocked]
    parts += tr_fill_safe()
    tr_pop_next_job()
    parts.append(tr_triggers(ss))
    parts += tr_hold_release()
    rec_defs, shape = tr_after_recycle(ss)
    parts += rec_defs
    mp, mp_table = tr_mark_step_pending(ss)
    parts.append(mp)
    parts.append("Definition dispatch_code (has_hash : bool) : N := if has_hash then code_CHECKING else code_RUNNING.")
    slot, facts = tr_builder()
    parts.append(slot)
    tr_director()
    parts.append("")
    parts.append("(* structural facts checked by the translator (fail closed):")
    for k, v in facts.items():
        parts.append(f"   {k} = {v}")
    parts.append(f"   SELECT_NEXT_STEP order by: {order}")
    parts.append("   pop_next_job: draining test, then ONE transaction without awaits: meta updates, select,")
    parts.append("   derive job, set_state; hold/release handlers: one transaction each on scheduler.jobs[job_i] *)")
    return "\n".join(parts) + "\n", {"enums": ss, "need": need, "facts": facts, "shape": shape}


if __name__ == "__main__":
    sys.stdout.write(generate()[0])
