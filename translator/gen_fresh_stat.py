"""Translator for C03, part 2: the decision "has this file changed since it was recorded".

Re-reads /repo/stepup/core/hash.py on every run and writes coq/gen/GenFreshStat.v (definitions only):

* the attributes of `FileHash` and which of them take part in `==` (attrs `eq=False` excluded)
  -> `fh_eq_fields`;
* `FileHash.unknown()` / `is_unknown` (the placeholder digest and the zeros);
* `FileHash.refreshed`, statement by statement: the stat failure branch, the conjunction of
  `self.<attr> == st.<st_field>` comparisons that skips the digest computation -> `refreshed_shortcut`
  (a list of (attribute, stat field) pairs, in source order), the digest computation and the
  constructor call with its argument order -> `refreshed_build_gen`;
* the per-path body of `compute_inp_hashes` (what is put in `new_hashes`, which message, when the
  ConsistencyError is raised) -> `inp_entry_gen`, and of `compute_out_hashes` -> `out_entry_gen`;
* the two users of the result in executor.py that decide about the step: `_compute_inp_step_hash`
  (`len(result.messages) > 0` -> no step hash, `result.new_hashes` handed back),
  `_compute_full_step_hash` (`len(inp_result.messages) == 0` -> step hash else None,
  `inp_result.new_hashes` handed back) and `execute_job` / `_new_run`
  (`unexpected_input_changes = len(new_inp_hashes) > 0`) -> `inputs_changed_gen`.

Fail closed: any other statement shape raises TranslatorError.
"""
from __future__ import annotations

import ast
import re

from .astutil import TranslatorError, body_without_docstring, find_function, parse_module

CORE = "stepup/core"
ATTRS = ["digest", "mode", "mtime", "size", "inode"]
HF = {"digest": "HF_digest", "mode": "HF_mode", "mtime": "HF_mtime", "size": "HF_size", "inode": "HF_ino"}
SF = {"st_mode": "SF_mode", "st_mtime": "SF_mtime", "st_size": "SF_size", "st_ino": "SF_ino"}


def _name(n, ident):
    return isinstance(n, ast.Name) and n.id == ident


def _norm(s):
    return re.sub(r"\s+", " ", ast.unparse(s))


def _filehash(tree):
    cls = next((n for n in ast.walk(tree) if isinstance(n, ast.ClassDef) and n.name == "FileHash"), None)
    if cls is None:
        raise TranslatorError("hash.py: class FileHash not found")
    fields, eq_fields = [], []
    for s in cls.body:
        if isinstance(s, ast.AnnAssign) and isinstance(s.target, ast.Name):
            fields.append(s.target.id)
            if not (isinstance(s.value, ast.Call) and ast.unparse(s.value.func) == "attrs.field"):
                raise TranslatorError(f"FileHash.{s.target.id} is not an attrs.field(...)")
            kws = {k.arg: k.value for k in s.value.keywords}
            unknown = set(kws) - {"converter", "repr", "eq"}
            if unknown:
                raise TranslatorError(f"FileHash.{s.target.id}: unrecognised attrs.field arguments {sorted(unknown)}")
            if "eq" in kws:
                if not (isinstance(kws["eq"], ast.Constant) and kws["eq"].value in (True, False)):
                    raise TranslatorError(f"FileHash.{s.target.id}: unrecognised eq= argument")
                if kws["eq"].value:
                    eq_fields.append(s.target.id)
            else:
                eq_fields.append(s.target.id)
    if fields != ATTRS:
        raise TranslatorError(f"FileHash attributes are {fields}, the model has {ATTRS}")
    decos = [ast.unparse(d) for d in cls.decorator_list]
    if decos != ["attrs.define(frozen=True)"]:
        raise TranslatorError(f"FileHash decorators changed: {decos} (a custom __eq__ or eq=False would change `==`)")
    for s in cls.body:
        if isinstance(s, (ast.FunctionDef, ast.AsyncFunctionDef)) and s.name in ("__eq__", "__ne__", "__hash__"):
            raise TranslatorError(f"FileHash defines {s.name}: `==` is no longer the attrs field comparison")
    # unknown()
    body = body_without_docstring(find_function(cls, "unknown"))
    if not (len(body) == 1 and isinstance(body[0], ast.Return) and isinstance(body[0].value, ast.Call)
            and _name(body[0].value.func, "cls") and len(body[0].value.args) == 5 and not body[0].value.keywords
            and all(isinstance(a, ast.Constant) for a in body[0].value.args)):
        raise TranslatorError("FileHash.unknown is not `return cls(<5 constants>)`")
    uvals = [a.value for a in body[0].value.args]
    if not (isinstance(uvals[0], bytes) and len(uvals[0]) != 32 and all(v == 0 for v in uvals[1:])):
        raise TranslatorError(f"FileHash.unknown constants not recognised: {uvals}")
    body = body_without_docstring(find_function(cls, "is_unknown"))
    if not (len(body) == 1 and _norm(body[0]) == f"return self.digest == {uvals[0]!r}"):
        raise TranslatorError("FileHash.is_unknown is not `return self.digest == <the digest of unknown()>`")
    # refreshed
    stmts = list(body_without_docstring(find_function(cls, "refreshed")))
    if stmts and _norm(stmts[0]) == "if cancel_event is not None and cancel_event.is_set(): raise HashCancelledError(path)":
        stmts = stmts[1:]
    if not (stmts and _norm(stmts[0]) == "path = Path(path)"):
        raise TranslatorError("FileHash.refreshed: expected `path = Path(path)`")
    stmts = stmts[1:]
    if not (len(stmts) == 4 and isinstance(stmts[0], ast.Try) and isinstance(stmts[1], ast.If)
            and isinstance(stmts[2], ast.Assign) and isinstance(stmts[3], ast.Return)):
        raise TranslatorError("FileHash.refreshed: body is not try / if / assign / return: "
                              + " | ".join(_norm(s)[:60] for s in stmts))
    if _norm(stmts[0]) != ("try: st = os.stat(path) except OSError: "
                           "return self if self.is_unknown else self.unknown()"):
        raise TranslatorError("FileHash.refreshed: the stat failure branch changed: " + _norm(stmts[0]))
    skip = stmts[1]
    if not (len(skip.body) == 1 and isinstance(skip.body[0], ast.Return) and _name(skip.body[0].value, "self")
            and not skip.orelse):
        raise TranslatorError("FileHash.refreshed: the branch that skips the digest is not `return self`")
    test = skip.test
    conj = test.values if isinstance(test, ast.BoolOp) and isinstance(test.op, ast.And) else [test]
    pairs = []
    for c in conj:
        if not (isinstance(c, ast.Compare) and len(c.ops) == 1 and isinstance(c.ops[0], ast.Eq)
                and isinstance(c.left, ast.Attribute) and _name(c.left.value, "self") and c.left.attr in HF
                and isinstance(c.comparators[0], ast.Attribute) and _name(c.comparators[0].value, "st")
                and c.comparators[0].attr in SF):
            raise TranslatorError(f"FileHash.refreshed: conjunct of the skip test is not `self.<attr> == st.<field>`: "
                                  f"{ast.unparse(c)}")
        pairs.append((c.left.attr, c.comparators[0].attr))
    if not re.fullmatch(r"digest = compute_file_digest\(path(, cancel_event=cancel_event)?\)", _norm(stmts[2])):
        raise TranslatorError("FileHash.refreshed: digest is not compute_file_digest(path, ...): " + _norm(stmts[2]))
    ret = stmts[3].value
    if not (isinstance(ret, ast.Call) and ast.unparse(ret.func) == "self.__class__" and len(ret.args) == 5
            and not ret.keywords and _name(ret.args[0], "digest")
            and all(isinstance(a, ast.Attribute) and _name(a.value, "st") and a.attr in SF for a in ret.args[1:])):
        raise TranslatorError("FileHash.refreshed: result is not self.__class__(digest, st.a, st.b, st.c, st.d)")
    build = [a.attr for a in ret.args[1:]]
    return {"eq_fields": eq_fields, "pairs": pairs, "build": build}


INP_LOOP = (
    "for path in sorted(inp_hashes): old_file_hash = inp_hashes[path] "
    "new_file_hash = old_file_hash.refreshed(path, cancel_event) all_inp_hashes[path] = new_file_hash "
    "if new_file_hash != old_file_hash: new_inp_hashes[path] = new_file_hash "
    "if new_file_hash.is_unknown: messages.append(f'Input vanished unexpectedly: {path}') "
    "else: messages.append(f'Input changed unexpectedly: {path} ' + fmt_file_hash_diff(old_file_hash, new_file_hash)) "
    "elif old_file_hash.is_unknown: raise ConsistencyError('A step was scheduled with a missing input file.')")
# the loop with the proposed fix of findings.d/C03-unreadable-input (an input that is no longer a
# readable regular file is reported as changed instead of failing the whole computation): the
# decision for readable files and missing paths -- what the model covers -- is the same
INP_LOOP_UNREADABLE_REPORTED = (
    "for path in sorted(inp_hashes): old_file_hash = inp_hashes[path] try: new_file_hash = old_file_hash.refreshed(path, cancel_event) except (HashFailedError, OSError) as exc: unreadable = str(exc) new_file_hash = FileHash.unknown() else: unreadable = None all_inp_hashes[path] = new_file_hash if new_file_hash != old_file_hash: new_inp_hashes[path] = new_file_hash if unreadable is not None: messages.append(f'Input changed unexpectedly: {path} ({unreadable})') elif new_file_hash.is_unknown: messages.append(f'Input vanished unexpectedly: {path}') else: messages.append(f'Input changed unexpectedly: {path} ' + fmt_file_hash_diff(old_file_hash, new_file_hash)) elif old_file_hash.is_unknown: raise ConsistencyError('A step was scheduled with a missing input file.')")
OUT_LOOP = (
    "for path in sorted(out_hashes): old_file_hash = out_hashes[path] "
    "new_file_hash = old_file_hash.refreshed(path, cancel_event) all_out_hashes[path] = new_file_hash "
    "if new_file_hash != old_file_hash: new_out_hashes[path] = new_file_hash "
    "if new_file_hash.is_unknown: messages.append(path)")


def _loops(tree):
    f = find_function(tree, "compute_inp_hashes")
    got = [_norm(s) for s in body_without_docstring(f)]
    exp = ["messages = []", "new_inp_hashes = {}", "all_inp_hashes = {}", INP_LOOP,
           "return HashComputeResult(messages, new_inp_hashes, all_inp_hashes)"]
    unreadable_reported = len(got) == 5 and got[3] == INP_LOOP_UNREADABLE_REPORTED
    if unreadable_reported:
        got = got[:3] + [INP_LOOP] + got[4:]
    if got != exp:
        raise TranslatorError("hash.compute_inp_hashes is not the reviewed loop: " + " | ".join(got)[:400])
    f = find_function(tree, "compute_out_hashes")
    got = [_norm(s) for s in body_without_docstring(f)]
    exp = ["messages = []", "new_out_hashes = {}", "all_out_hashes = {}", OUT_LOOP,
           "return HashComputeResult(messages, new_out_hashes, all_out_hashes)"]
    if got != exp:
        raise TranslatorError("hash.compute_out_hashes is not the reviewed loop: " + " | ".join(got)[:400])
    f = find_function(tree, "compute_both_hashes")
    got = [_norm(s) for s in body_without_docstring(f)]
    if got != ["return (compute_inp_hashes(inp_hashes, cancel_event), compute_out_hashes(out_hashes, cancel_event))"]:
        raise TranslatorError("hash.compute_both_hashes changed: " + " | ".join(got)[:300])
    cls = next(n for n in ast.walk(tree) if isinstance(n, ast.ClassDef) and n.name == "HashComputeResult")
    names = [s.target.id for s in cls.body if isinstance(s, ast.AnnAssign)]
    if names != ["messages", "new_hashes", "all_hashes"]:
        raise TranslatorError(f"HashComputeResult fields changed: {names}")
    return unreadable_reported


def _users():
    """The statements of executor.py through which the result decides about the step."""
    tree = parse_module(f"{CORE}/executor.py")

    def texts(fn):
        return [_norm(s) for s in ast.walk(find_function(tree, fn, cls="Executor")) if isinstance(s, ast.stmt)]

    need = {
        "_compute_inp_step_hash": [
            "result = await self._run_work_thread(run, functools.partial(compute_inp_hashes, inp_hashes))",
            "if len(result.messages) > 0: run.inp_messages.extend(result.messages) run.success = False "
            "return (None, result.new_hashes)",
        ],
        "_compute_full_step_hash": [
            "result = await self._run_work_thread(run, functools.partial(compute_both_hashes, inp_hashes, out_hashes))",
            "inp_result, out_result = result",
            "return (step_hash, inp_result.new_hashes, out_result.new_hashes)",
        ],
        "execute_job": [
            "new_hash, new_inp_hashes, new_out_hashes = await self._compute_full_step_hash(run)",
            "unexpected_input_changes = len(new_inp_hashes) > 0",
        ],
        "_new_run": [
            "new_step_hash, new_inp_hashes = await self._compute_inp_step_hash(run, inp_hashes, env_deps)",
            "unexpected_input_changes = len(new_inp_hashes) > 0",
        ],
    }
    for fn, stmts in need.items():
        have = texts(fn)
        for s in stmts:
            if s not in have:
                raise TranslatorError(f"executor.{fn}: statement not found (the use of the hash result changed): {s}")
    full = find_function(tree, "_compute_full_step_hash", cls="Executor")
    ifs = [s for s in ast.walk(full) if isinstance(s, ast.If) and "inp_result.messages" in ast.unparse(s.test)]
    if not (len(ifs) == 1 and _norm(ifs[0].test) == "len(inp_result.messages) == 0"
            and _norm(ifs[0].orelse[0]) == "step_hash = None" and len(ifs[0].orelse) == 3):
        raise TranslatorError("executor._compute_full_step_hash: the test on inp_result.messages changed")
    comp = [s for s in ast.walk(full) if isinstance(s, ast.DictComp)]
    if not comp or "rec.state in (FileState.BUILT, FileState.CONFIRMED)" not in ast.unparse(comp[0]):
        raise TranslatorError("executor._compute_full_step_hash: the post-run filter on the input records changed")


def generate():
    tree = parse_module(f"{CORE}/hash.py")
    fh = _filehash(tree)
    unreadable_reported = _loops(tree)
    _users()
    out = [
        "(* GENERATED by translator/gen_fresh_stat.py from /repo/stepup/core/hash.py -- do not edit *)",
        "From Coq Require Import List NArith Bool.",
        "From SV Require Import model.FreshStatTypes.",
        "Import ListNotations.",
        "Open Scope N_scope.",
        "Open Scope bool_scope.",
        "",
        "(* attrs fields of FileHash that take part in == (eq=False excluded), in declaration order *)",
        "Definition fh_eq_fields : list hfield := [" + "; ".join(HF[f] for f in fh["eq_fields"]) + "].",
        "(* FileHash.unknown() = cls(b\"u\", 0, 0.0, 0, 0); the placeholder digest is code 0 *)",
        "Definition fh_unknown_gen : fhash := mkFH 0 0 0 0 0.",
        "Definition is_unknown_gen (self : fhash) : bool := fh_digest self =? 0.",
        "(* FileHash.refreshed: `except OSError: return self if self.is_unknown else self.unknown()` *)",
        "Definition refreshed_stat_fails_gen (self : fhash) : fhash :=",
        "  if is_unknown_gen self then self else fh_unknown_gen.",
        "(* FileHash.refreshed: the conjunction `self.<attr> == st.<field>` under which the digest is NOT recomputed *)",
        "Definition refreshed_shortcut : list (hfield * sfield) := ["
        + "; ".join(f"({HF[a]}, {SF[s]})" for a, s in fh["pairs"]) + "].",
        "(* FileHash.refreshed: self.__class__(digest, " + ", ".join("st." + b for b in fh["build"]) + ") *)",
        "Definition refreshed_build_gen (digest : N) (st : cfile) : fhash :=",
        "  mkFH digest " + " ".join(f"(sf_get {SF[b]} st)" for b in fh["build"]) + ".",
        "",
        "(* hash.compute_inp_hashes, per path: (entered in new_hashes, message: 0 none / 1 vanished / 2 changed,",
        "   ConsistencyError raised) from `new != old`, `new.is_unknown`, `old.is_unknown` *)",
        "Definition inp_entry_gen (differs new_unknown old_unknown : bool) : bool * N * bool :=",
        "  if differs then (true, (if new_unknown then 1 else 2), false)",
        "  else if old_unknown then (false, 0, true) else (false, 0, false).",
        "(* hash.compute_out_hashes, per path: (entered in new_hashes, reported missing) *)",
        "Definition out_entry_gen (differs new_unknown : bool) : bool * bool := (differs, new_unknown).",
        "(* executor: `len(result.messages) > 0` / `len(inp_result.messages) == 0` decide about the step hash,",
        "   `unexpected_input_changes = len(new_inp_hashes) > 0` about FAILED + drain; both from the entries *)",
        "Definition inputs_changed_gen (entries : list (bool * N * bool)) : bool :=",
        "  existsb (fun e => fst (fst e)) entries.",
        "Definition inputs_reported_gen (entries : list (bool * N * bool)) : bool :=",
        "  existsb (fun e => negb (snd (fst e) =? 0)) entries.",
        "(* compute_inp_hashes reports an input that is no longer a readable regular file as changed",
        "   (true) or lets the exception fail the whole hash computation: step FAILED, no drain (false) *)",
        "Definition unreadable_input_reported : bool := " + ("true" if unreadable_reported else "false") + ".",
        "(* ... and the entry of such a path in that case (the new hash is FileHash.unknown(); the message is",
        "   'Input changed unexpectedly: <path> (<reason>)', kind 2, whatever is_unknown says) *)",
        "Definition inp_entry_unreadable_gen (differs old_unknown : bool) : bool * N * bool :=",
        "  if differs then (true, 2, false) else if old_unknown then (false, 0, true) else (false, 0, false).",
        "",
    ]
    facts = {"refreshed_shortcut": fh["pairs"], "eq_fields": fh["eq_fields"], "build": fh["build"]}
    return "\n".join(out), facts
