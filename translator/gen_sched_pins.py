"""Normalised sources of the functions whose control flow model/Sched.v mirrors.
Regenerate with: PYTHONPATH=/repo:/verif python -m translator.gen_sched --print-pins
(only after re-reading the changed function and updating the model)."""
PINS = {
    'stepup/core/builder.py:Builder:job_loop': (
        'async def job_loop(self):\n'
        '    await self._report_counts()\n'
        "    await self.reporter('PHASE', 'build')\n"
        '    if self.executor.write_joblog:\n'
        '        init_joblog(self.njob)\n'
        '    while True:\n'
        '        await self.handle_done_tasks()\n'
        '        if len(self.running_tasks) < self.njob:\n'
        '            hash_job = self.hash_queue.pop_nowait()\n'
        '            if hash_job is not None:\n'
        '                self.start_hash_task(hash_job)\n'
        '                continue\n'
        '        if len(self.running_tasks) < self.njob:\n'
        '            job = await self.scheduler.pop_next_job()\n'
        '            if job is not None:\n'
        '                self.start_task(job)\n'
        '                continue\n'
        '        if len(self.running_tasks) == 0 and len(self.done_tasks) == 0:\n'
        '            return\n'
        '        await self.wake_job_loop.wait()\n'
        '        self.wake_job_loop.clear()\n'
    ),
    'stepup/core/finalize.py::revert_optional_steps': (
        'async def revert_optional_steps(workflow: Workflow, reporter: ReporterClient):\n'
        '    db = workflow.db\n'
        '    async with db:\n'
        '        _drop_optional_tables(db)\n'
        '        db.execute(CREATE_OPTIONAL_STEP_TABLE)\n'
        '        db.execute(CREATE_OPTIONAL_TO_BE_DELETED_TABLE)\n'
        '        cur = db.execute(UPDATE_OPTIONAL_STEPS)\n'
        '        nstep = cur.rowcount\n'
        '        cur = db.execute(SELECT_OPTIONAL_TO_BE_DELETED)\n'
        '        to_be_deleted = {row[0]: None if row[1] == FileState.VOLATILE.value else FileHash.from_json(row[2]) for row in cur}\n'
        '        if len(to_be_deleted) > 0:\n'
        '            workflow.to_be_deleted.update(to_be_deleted)\n'
        '            for path in to_be_deleted:\n'
        '                workflow.mark_dir_to_be_deleted(Path(path).parent)\n'
        '            db.execute(UPDATE_OPTIONAL_TO_BE_DELETED)\n'
        '        _drop_optional_tables(db)\n'
        '    if nstep > 0:\n'
        "        await reporter('WARNING', f'Reverted {nstep} optional step(s) to PENDING.')\n"
        '    if len(to_be_deleted) > 0:\n'
        "        await reporter('WARNING', f'Marked {len(to_be_deleted)} output file(s) of reverted step(s) for deletion.')\n"
    ),
    'stepup/core/scheduler.py:Scheduler:_any_flagged': (
        'def _any_flagged(self, column: str) -> bool:\n'
        "    sql = f'SELECT EXISTS(SELECT 1 FROM step WHERE {column})'\n"
        '    return bool(self.db.execute(sql).fetchone()[0])\n'
    ),
    'stepup/core/scheduler.py:Scheduler:_clear_flag': (
        'def _clear_flag(self, column: str):\n'
        "    cur = self.db.execute(f'UPDATE step SET {column} = 0 WHERE {column}')\n"
    ),
    'stepup/core/scheduler.py:Scheduler:_get_next_step': (
        'def _get_next_step(self) -> tuple[Step, StepState] | None:\n'
        '    row = self.db.execute(SELECT_NEXT_STEP, (self.workflow.need_threshold.value,)).fetchone()\n'
        '    if row is None:\n'
        '        return None\n'
        '    i, label, has_hash = row\n'
        '    state = StepState.CHECKING if has_hash else StepState.RUNNING\n'
        '    return (Step(self.workflow, i, label), state)\n'
    ),
    'stepup/core/scheduler.py:Scheduler:_update_meta_after': (
        'def _update_meta_after(self):\n'
        "    if not self._any_flagged('_check_after'):\n"
        '        return\n'
        '    self.db.execute(EMPTY_CHECK_AFTER)\n'
        '    self.db.execute(SEED_CHECK_AFTER)\n'
        '    ncheck = self.db.execute(COUNT_CHECK_AFTER).fetchone()[0]\n'
        '    first = True\n'
        '    while ncheck > 0:\n'
        "        cur = self.db.execute(UPDATE_CHECK_AFTER, {'first': first})\n"
        '        changed_ids = cur.fetchall()\n'
        '        self.db.execute(EMPTY_CHECK_AFTER)\n'
        '        self.db.execute(EMPTY_CHANGED_AFTER)\n'
        '        self.db.executemany(INSERT_CHANGED_AFTER, changed_ids)\n'
        '        cur = self.db.execute(PROPAGATE_CHECK_AFTER)\n'
        '        ncheck = cur.rowcount\n'
        '        first = False\n'
        "    self._clear_flag('_check_after')\n"
    ),
    'stepup/core/scheduler.py:Scheduler:_update_meta_ready': (
        'def _update_meta_ready(self):\n'
        "    if not self._any_flagged('_check_ready'):\n"
        '        return\n'
        '    cur = self.db.execute(RECOMPUTE_READY)\n'
    ),
    'stepup/core/scheduler.py:Scheduler:_update_meta_safe': (
        'def _update_meta_safe(self):\n'
        "    if not self._any_flagged('_check_safe'):\n"
        '        return\n'
        '    self.db.execute(EMPTY_SAFE_UPDATE)\n'
        '    self.db.execute(FILL_SAFE_UPDATE)\n'
        '    cur = self.db.execute(APPLY_SAFE_UPDATE)\n'
        "    self._clear_flag('_check_safe')\n"
    ),
    'stepup/core/scheduler.py:Scheduler:pop_next_job': (
        'async def pop_next_job(self) -> Job | None:\n'
        '    if self.draining:\n'
        '        return None\n'
        '    async with self.db:\n'
        '        self._update_meta_safe()\n'
        '        self._update_meta_after()\n'
        '        self._update_meta_ready()\n'
        '        result = self._get_next_step()\n'
        '        if result is None:\n'
        '            return None\n'
        '        step, state = result\n'
        '        job = self._derive_job(step)\n'
        '        step.set_state(state)\n'
        '        return job\n'
    ),
    'stepup/core/step.py:Step:_flag_checks_with_products': (
        'def _flag_checks_with_products(self):\n'
        '    self.db.execute(RECURSIVE_CHECK_WITH_PRODUCTS, (self.i,))\n'
    ),
    'stepup/core/step.py:Step:_increment_defer_count': (
        'def _increment_defer_count(self) -> int:\n'
        "    row = self.db.execute('UPDATE step SET defer_count = defer_count + 1 WHERE node = ? RETURNING defer_count', (self.i,)).fetchone()\n"
        '    return row[0]\n'
    ),
    'stepup/core/step.py:Step:detach': (
        'def detach(self):\n'
        '    super().detach()\n'
        '    self._flag_checks_with_products()\n'
        '    self.db.execute(RECURSIVE_CHECK_AFTER_SOURCES, (self.i,))\n'
    ),
    'stepup/core/step.py:Step:has_unavailable_dynamic_input': (
        'def has_unavailable_dynamic_input(self) -> bool:\n'
        "    sql = f'\\n        SELECT EXISTS (\\n            SELECT 1 FROM dependency\\n            JOIN dynamic_dep ON dynamic_dep.i = dependency.i\\n            JOIN file ON file.node = dependency.source\\n            WHERE dependency.sink = ?\\n            AND file.state NOT IN ({FileState.CONFIRMED.value}, {FileState.BUILT.value})\\n        )\\n        '\n"
        '    return bool(self.db.execute(sql, (self.i,)).fetchone()[0])\n'
    ),
    'stepup/core/step.py:Step:hold': (
        'def hold(self):\n'
        "    row = self.db.execute('UPDATE step SET _holding = _holding + 1 WHERE node = ? RETURNING _holding', (self.i,)).fetchone()\n"
        '    if row[0] == 1:\n'
        '        self._flag_checks_with_products()\n'
    ),
    'stepup/core/step.py:Step:initialize_row': (
        'def initialize_row(self, *, need: Need=Need.DEFAULT, shell: bool=False, duration: float | None=None, _safe: bool=False, **kwargs):\n'
        "    self.db.execute('DELETE FROM step WHERE node = :node', {'node': self.i})\n"
        "    self.db.execute('INSERT INTO step (node, state, need, duration, shell, _safe, _check_safe, _safe_ignoring_hold, _implied_need, _check_after, _has_hash) VALUES(:node, :state, :need, :duration, :shell, :safe, :check_safe, :safe, :implied_need, 1, (SELECT EXISTS(SELECT 1 FROM step_hash WHERE node = :node)))', {'node': self.i, 'need': need.value, 'state': StepState.PENDING.value, 'duration': 1.0 if duration is None else duration, 'shell': int(shell), 'safe': int(_safe), 'check_safe': int(not _safe), 'implied_need': need.value})\n"
    ),
    'stepup/core/step.py:Step:mark_completed': (
        'def mark_completed(self, new_hash: StepHash | None, wants_defer: bool) -> bool:\n'
        '    interrupted_defer = False\n'
        '    if new_hash is None:\n'
        '        for file in self.products(File):\n'
        '            if file.get_state() == FileState.BUILT:\n'
        '                file.set_state(FileState.OUTDATED)\n'
        '        if wants_defer:\n'
        '            defer_count = self._increment_defer_count()\n'
        '            if defer_count <= self.graph.defer_cap:\n'
        '                deferred = self.has_unavailable_dynamic_input()\n'
        '                self.set_state(StepState.PENDING, deferred)\n'
        '            else:\n'
        '                self.set_state(StepState.FAILED)\n'
        '                interrupted_defer = True\n'
        '        else:\n'
        '            self.set_state(StepState.FAILED)\n'
        '        if self.get_state() == StepState.FAILED:\n'
        '            self._detach_created_steps()\n'
        '        self.delete_hash()\n'
        '    else:\n'
        '        self.set_state(StepState.SUCCEEDED)\n'
        '        for file in self.products(File):\n'
        '            if file.get_state() == FileState.OUTDATED:\n'
        '                file.set_state(FileState.BUILT)\n'
        '                self.graph.mark_consuming_steps_pending(file)\n'
        '        self.set_hash(new_hash)\n'
        '    return interrupted_defer\n'
    ),
    'stepup/core/step.py:Step:reattach': (
        'def reattach(self, new_creator: Node):\n'
        '    super().reattach(new_creator)\n'
        '    self._flag_checks_with_products()\n'
    ),
    'stepup/core/step.py:Step:release': (
        'def release(self):\n'
        "    row = self.db.execute('UPDATE step SET _holding = _holding - 1 WHERE node = ? AND _holding > 0 RETURNING _holding', (self.i,)).fetchone()\n"
        '    if row is None:\n'
        "        raise GraphError(f'Step {self.key()} is not holding; release() has no matching hold().')\n"
        '    if row[0] == 0:\n'
        '        self._flag_checks_with_products()\n'
    ),
    'stepup/core/step.py:Step:set_state': (
        'def set_state(self, state: StepState, deferred: bool=False) -> None:\n'
        "    self.db.execute('UPDATE step SET state = ?, deferred = ? WHERE node = ?', (state.value, deferred, self.i))\n"
    ),
    'stepup/core/tui.py::_normalize_targets': (
        'def _normalize_targets(raw_targets: list[str], stepup_root: Path) -> tuple[list[Path], list[Path]]:\n'
        '    targets = []\n'
        '    target_dirs = []\n'
        '    for raw_target in raw_targets:\n'
        "        if raw_target == '':\n"
        "            raise ToolError('A target cannot be an empty string.')\n"
        '        is_dir_target = raw_target.endswith(os.sep)\n'
        '        target_abs = Path(raw_target).absolute()\n'
        '        target_rel = target_abs.relpath(stepup_root).normpath()\n'
        '        if is_dir_target:\n'
        "            target_dirs.append(target_rel / '')\n"
        '        else:\n'
        '            targets.append(target_rel)\n'
        '    return (targets, target_dirs)\n'
    ),
    'stepup/core/workflow.py:Workflow:need_threshold': (
        '@property\n'
        'def need_threshold(self) -> Need:\n'
        '    return Need.DEFAULT if self.targets or self.target_dirs else Need.OPTIONAL\n'
    ),
    'stepup/core/workflow.py:Workflow:reconcile_targets': (
        'def reconcile_targets(self):\n'
        "    self.db.execute(f'UPDATE step SET _check_after = 1 WHERE _implied_need = {Need.TARGET.value}')\n"
        '    for path in sorted(self.targets):\n'
        '        file = self.find_attached(File, path)\n'
        '        if file is None:\n'
        '            continue\n'
        '        state = file.get_state()\n'
        '        if state in TARGET_FORBIDDEN_STATES:\n'
        '            if not self._creator_chain_pending(file):\n'
        '                self._raise_if_forbidden_target(path, state)\n'
        '            continue\n'
        '        creator = file.creator()\n'
        '        if isinstance(creator, Step):\n'
        "            self.db.execute('UPDATE step SET _check_after = 1 WHERE node = ?', (creator.i,))\n"
        '    self.db.execute(RECONCILE_TARGET_DIRS)\n'
    ),
}
