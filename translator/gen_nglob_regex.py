"""Translator for C17, part 4: the main loop of convert_nglob_to_regex -> coq/gen/GenNglobRegex.v.

The body of `for i, part in enumerate(RE_ANY_WILD.split(pattern))` is executed SYMBOLICALLY, statement
by statement: every `if` splits the path, assignments to locals update an environment of Gallina terms,
`raise` ends a path with `CErr kind`, the end of the body yields `COk <state>`.  The result is one
Gallina decision tree

    gen_regex_frag rec allow_names subs st (odd, part) : cres cst

over the compiler state of model/Nglob.v (cst: parts as `re` values, last fragment, encountered names,
star_names) and the fragment primitives of model/NglobPy.v / model/NglobPyRegex.v.  String constants
that are regex fragments are mapped to the model's `re` constants through FRAGMENTS; the pairs used are
emitted as `gen_regex_consts` and `pr <re> = <text>` is checked in Coq for each.  f-string templates
are mapped to the constructors RCls / RRef / RGrp; `rec` is the recursive call for a sub-pattern
(`convert_nglob_to_regex(subs.get(name, "*"), {}, False)`).

proofs/NglobRegexTie.v proves, for ALL patterns, that folding gen_regex_frag over RE_ANY_WILD.split is
model/Nglob.v conv_loop, so that the compile theorems (C17_compiled_parts_shape, C17_backref_...,
C17_compile_regex_correct_*) are about the loop the code has NOW.  Harmless rewrites (renamed locals,
a split or merged condition, reordered disjoint branches, a hoisted `subs.get`) translate to an equal
function; a changed rule translates to a different one and the tie lemma breaks by name.

What is NOT translated here (checked by gen_nglob.py as before): the prologue (empty pattern, subs
default), the post-processing block `if allow_names:` (compared verbatim) and the final join.
Fail closed: any statement or expression outside the subset raises TranslatorError.
"""

from __future__ import annotations

import ast

from .astutil import TranslatorError, body_without_docstring, coq_str, find_function, parse_module

NGLOB = "stepup/core/nglob.py"

FRAGMENTS = {"[^/]": "re_q", "[^/]*": "re_star", ".*": "re_dstar", "(?:.*/|)": "re_dstarslash"}
ERR_KINDS = [
    ("Cannot convert an empty pattern", "EEmptyPattern"),
    ("A named wildcard must have a name", "EEmptyName"),
    ("Named wildcards not allowed", "ENamesNotAllowed"),
    # dead branch (the chain covers every kind of wildcard fragment); any error will do, the tie proof
    # shows it is never reached for a fragment RE_ANY_WILD.split produces
    ("Cannot convert wildcard to regex", "ENamesNotAllowed"),
]


def _fail(node, why):
    src = ast.unparse(node) if isinstance(node, ast.AST) else str(node)
    raise TranslatorError(f"gen_nglob_regex: {why}: `{src[:110]}`")


def _neg(t):
    return {"true": "false", "false": "true"}.get(t, f"(negb {t})")


class V:
    """A symbolic value: kind + Gallina text (+ python-level static value when known)."""

    def __init__(self, kind, text, static=None):
        self.kind, self.text, self.static = kind, text, static


NONE = V("none", "None", static=None)


class Loop:
    def __init__(self):
        fn = find_function(parse_module(NGLOB), "convert_nglob_to_regex")
        args = [a.arg for a in fn.args.args]
        if len(args) != 3:
            _fail(fn.name, f"signature changed: {args}")
        self.pattern, self.subs, self.allow = args
        body = body_without_docstring(fn)
        loops = [s for s in body if isinstance(s, ast.For)]
        if len(loops) != 1:
            _fail(fn.name, "expected exactly one top-level for loop")
        loop = loops[0]
        if ast.unparse(loop.iter) != f"enumerate(RE_ANY_WILD.split({self.pattern}))" or loop.orelse:
            _fail(loop.iter, "the loop does not run over enumerate(RE_ANY_WILD.split(pattern))")
        if not (isinstance(loop.target, ast.Tuple) and len(loop.target.elts) == 2
                and all(isinstance(e, ast.Name) for e in loop.target.elts)):
            _fail(loop.target, "loop target")
        self.index, self.part = (e.id for e in loop.target.elts)
        # the state variables, by the shape of their initialisation before the loop
        self.role = {}
        pre = body[:body.index(loop)]
        guards = [ast.unparse(s) for s in pre if not isinstance(s, ast.Assign)]
        empty = [g for g in guards if g.startswith(f"if len({self.pattern}) == 0:\n    raise ValueError('Cannot convert an empty pattern")
                 or g.startswith(f"if not {self.pattern}:\n    raise ValueError('Cannot convert an empty pattern")]
        dflt = [g for g in guards if g == f"if {self.subs} is None:\n    {self.subs} = {{}}"]
        if len(empty) != 1 or len(dflt) != 1 or len(guards) != 2:
            _fail(fn.name, f"prologue is not (empty-pattern error, subs default): {guards}")
        post = body[body.index(loop) + 1:]
        if len(post) != 2 or not (isinstance(post[0], ast.If) and ast.unparse(post[0].test) == self.allow and not post[0].orelse) \
                or not isinstance(post[1], ast.Return):
            _fail(fn.name, "after the loop: expected `if allow_names: <post-processing>` and the return")
        for s in pre:
            if isinstance(s, ast.Assign) and len(s.targets) == 1 and isinstance(s.targets[0], ast.Name):
                v, src = s.targets[0].id, ast.unparse(s.value)
                role = {"[]": "parts", "None": "last", "set()": "enc", "{}": "stars"}.get(src)
                if role is None or role in self.role.values():
                    _fail(s, "unexpected initialisation before the loop")
                self.role[v] = role
        if sorted(self.role.values()) != ["enc", "last", "parts", "stars"]:
            _fail(fn.name, f"state variables not recognised: {self.role}")
        self.body = loop.body
        self.consts = set()
        self.fresh = 0

    # ---- expressions ------------------------------------------------------------------------
    def E(self, n, env):
        if isinstance(n, ast.Constant):
            if n.value is None:
                return NONE
            if isinstance(n.value, bool):
                return V("bool", "true" if n.value else "false", static=n.value)
            if isinstance(n.value, str):
                return V("strconst", coq_str(n.value) if n.value else "(@nil N)", static=n.value)
            _fail(n, "constant")
        if isinstance(n, ast.Name):
            if n.id in env:
                return env[n.id]
            if n.id == self.allow:
                return V("bool", "allow_names")
            if n.id == self.subs:
                return V("subs", "subs")
            _fail(n, "unknown variable")
        if isinstance(n, ast.JoinedStr):
            return self.fstring(n, env)
        if isinstance(n, ast.IfExp):
            t = self.B(n.test, env)
            a, b = self.E(n.body, env), self.E(n.orelse, env)
            if a.kind != b.kind:
                _fail(n, "conditional expression with branches of different kinds")
            return V(a.kind, f"(if {t} then {a.text} else {b.text})")
        if isinstance(n, ast.Subscript):
            return self.subscript(n, env)
        if isinstance(n, ast.Call):
            return self.call(n, env)
        if isinstance(n, (ast.Compare, ast.BoolOp, ast.UnaryOp)):
            return V("bool", self.B(n, env))
        _fail(n, "expression not in the translated subset")

    def regex_of(self, v, node):
        """A value used as a regex fragment -> V('re', ...)."""
        if v.kind == "re":
            return v
        if v.kind == "strconst":
            if v.static not in FRAGMENTS:
                _fail(node, f"regex fragment {v.static!r} is not one of the model's fragments {sorted(FRAGMENTS)}")
            self.consts.add(v.static)
            return V("re", FRAGMENTS[v.static])
        _fail(node, f"a value of kind {v.kind} used as a regex fragment")

    def fstring(self, n, env):
        pieces = []
        for v in n.values:
            if isinstance(v, ast.Constant):
                pieces.append(v.value)
            elif isinstance(v, ast.FormattedValue) and v.conversion == -1 and v.format_spec is None:
                pieces.append(self.E(v.value, env))
            else:
                _fail(n, "f-string piece")
        shape = [p if isinstance(p, str) else p.kind for p in pieces]
        if shape == ["[^", "str", "]"]:
            return V("re", f"(RCls true {pieces[1].text})")
        if shape == ["[", "str", "]"]:
            return V("re", f"(RCls false {pieces[1].text})")
        if shape == ["(?P=", "str", ")"]:
            return V("re", f"(RRef {pieces[1].text})")
        if shape == ["(?P<", "str", ">", "relist", ")"]:
            return V("re", f"(RGrp {pieces[1].text} (rcat {pieces[3].text}))")
        if shape == ["(?P<", "str", ">", "strconst", ")"] or shape == ["(?P<", "str", ">", "re", ")"]:
            body = self.regex_of(pieces[3], n)
            return V("re", f"(RGrp {pieces[1].text} {body.text})")
        if pieces and all(isinstance(p, str) for p in pieces):
            return V("msg", "", static="".join(pieces))
        if pieces and isinstance(pieces[0], str):
            return V("msg", "", static=pieces[0])
        _fail(n, f"f-string template {shape}")

    def subscript(self, n, env):
        base = self.E(n.value, env)
        if base.kind == "tok":
            s = n.slice
            if isinstance(s, ast.Slice) and s.step is None and isinstance(s.lower, ast.Constant) \
                    and isinstance(s.lower.value, int) and s.lower.value >= 0 and isinstance(s.upper, ast.UnaryOp) \
                    and isinstance(s.upper.op, ast.USub) and isinstance(s.upper.operand, ast.Constant):
                return V("str", f"(t_slice {base.text} {s.lower.value} {s.upper.operand.value})")
            if isinstance(s, ast.Constant) and isinstance(s.value, int) and s.value >= 0:
                return V("char", f"(t_char {base.text} {s.value})")
        _fail(n, "subscript not in the translated subset")

    def call(self, n, env):
        f = n.func
        src = ast.unparse(n)
        if isinstance(f, ast.Attribute) and isinstance(f.value, ast.Name) and f.value.id == "re" and f.attr == "escape" \
                and len(n.args) == 1:
            a = self.E(n.args[0], env)
            if a.kind != "tok":
                _fail(n, "re.escape of something else than the fragment")
            return V("re", f"(RStr (tok_text {a.text}))")
        if isinstance(f, ast.Attribute) and f.attr == "get" and len(n.args) in (1, 2) and not n.keywords:
            recv = self.E(f.value, env)
            if recv.kind == "subs":
                k = self.E(n.args[0], env)
                if k.kind != "str":
                    _fail(n, "subs.get with a key that is not the wildcard name")
                if len(n.args) == 2:
                    d = self.E(n.args[1], env)
                    if d.kind != "strconst":
                        _fail(n, "subs.get default")
                    return V("pat", f"(subs_get_default {k.text} subs {d.text})")
                return V("opat", f"(subs_get {k.text} subs)")
        _fail(n, f"call not in the translated subset ({src[:60]})")

    # ---- boolean tests ------------------------------------------------------------------------
    def B(self, n, env):
        """Gallina bool for a Python condition (a static Python bool becomes true/false)."""
        if isinstance(n, ast.BoolOp):
            # left to right with Python's short circuit: a statically decided operand ends or is dropped
            is_and = isinstance(n.op, ast.And)
            out = []
            for v in n.values:
                t = self.B(v, env)
                if t == ("false" if is_and else "true"):
                    out.append(t)
                    break
                if t == ("true" if is_and else "false"):
                    continue
                out.append(t)
            if not out:
                return "true" if is_and else "false"
            if out[-1] in ("true", "false") and len(out) == 1:
                return out[0]
            return "(" + (" && " if is_and else " || ").join(out) + ")"
        if isinstance(n, ast.UnaryOp) and isinstance(n.op, ast.Not):
            return _neg(self.B(n.operand, env))
        if isinstance(n, ast.Name) or isinstance(n, ast.Constant):
            v = self.E(n, env)
            if v.kind != "bool":
                _fail(n, "truth value of something that is not a bool")
            return v.text
        if isinstance(n, ast.Call) and isinstance(n.func, ast.Attribute) and n.func.attr in ("startswith", "endswith") \
                and len(n.args) == 1:
            recv, a = self.E(n.func.value, env), self.E(n.args[0], env)
            if recv.kind == "tok" and a.kind == "strconst":
                return f"(t_{n.func.attr} {recv.text} {a.text})"
            _fail(n, "startswith/endswith")
        if isinstance(n, ast.Compare) and len(n.ops) == 1:
            op, ln, rn = n.ops[0], n.left, n.comparators[0]
            # i % 2 == c
            if isinstance(ln, ast.BinOp) and isinstance(ln.op, ast.Mod) and isinstance(ln.left, ast.Name) \
                    and ln.left.id == self.index and isinstance(ln.right, ast.Constant) and ln.right.value == 2 \
                    and isinstance(rn, ast.Constant) and rn.value in (0, 1) and isinstance(op, (ast.Eq, ast.NotEq)):
                odd = (rn.value == 1) == isinstance(op, ast.Eq)
                return "odd" if odd else "(negb odd)"
            # len(x) > 0 / == 0 / != 0 / >= 1
            if isinstance(ln, ast.Call) and isinstance(ln.func, ast.Name) and ln.func.id == "len" and len(ln.args) == 1 \
                    and isinstance(rn, ast.Constant) and isinstance(rn.value, int):
                a = self.E(ln.args[0], env)
                if a.kind == "tok":
                    length = f"(t_len {a.text})"
                elif a.kind in ("re", "strconst"):
                    length = f"(length (pr {self.regex_of(a, n).text}))"
                elif a.kind == "str":
                    length = f"(length {a.text})"
                else:
                    _fail(n, f"len() of a value of kind {a.kind}")
                empty = f"(Nat.eqb {length} 0)"
                if (isinstance(op, ast.Gt) and rn.value == 0) or (isinstance(op, ast.NotEq) and rn.value == 0) \
                        or (isinstance(op, ast.GtE) and rn.value == 1):
                    return f"(negb {empty})"
                if isinstance(op, ast.Eq) and rn.value == 0:
                    return empty
                _fail(n, "length comparison")
            lv = self.E(ln, env)
            # x is None / is not None
            if isinstance(op, (ast.Is, ast.IsNot)) and isinstance(rn, ast.Constant) and rn.value is None:
                if lv.kind == "none":
                    isnone = "true"
                elif lv.kind in ("re", "strconst", "str", "pat", "relist"):
                    isnone = "false"
                elif lv.kind in ("otok", "opat", "ostr"):
                    isnone = f"(is_none {lv.text})"
                else:
                    _fail(n, f"`is None` on a value of kind {lv.kind}")
                return isnone if isinstance(op, ast.Is) else _neg(isnone)
            rv = self.E(rn, env) if not isinstance(rn, ast.List) else None
            if lv.kind in ("tok", "otok"):
                pre = "t" if lv.kind == "tok" else "ot"
                if isinstance(op, (ast.Eq, ast.NotEq)) and rv is not None and rv.kind == "strconst":
                    t = f"({pre}_eq {lv.text} {rv.text})"
                    return t if isinstance(op, ast.Eq) else f"(negb {t})"
                if isinstance(op, (ast.In, ast.NotIn)) and isinstance(rn, (ast.List, ast.Tuple)):
                    elts = [self.E(e, env) for e in rn.elts]
                    if not all(e.kind == "strconst" for e in elts):
                        _fail(n, "membership list")
                    t = f"({pre}_in {lv.text} [" + "; ".join(e.text for e in elts) + "])"
                    return t if isinstance(op, ast.In) else f"(negb {t})"
            if lv.kind == "none" and isinstance(op, (ast.In, ast.NotIn, ast.Eq, ast.NotEq)):
                # `last` before the first fragment is handled by the otok kind; a literal None here is static
                return "false" if isinstance(op, (ast.In, ast.Eq)) else "true"
            if lv.kind == "char" and isinstance(op, (ast.Eq, ast.NotEq)) and rv is not None and rv.kind == "strconst" \
                    and len(rv.static) == 1:
                t = f"(ochar_eq {lv.text} {ord(rv.static)})"
                return t if isinstance(op, ast.Eq) else f"(negb {t})"
            if lv.kind == "str" and isinstance(op, (ast.In, ast.NotIn)) and rv is not None and rv.kind == "strset":
                t = f"(mem_str {lv.text} {rv.text})"
                return t if isinstance(op, ast.In) else f"(negb {t})"
            if lv.kind in ("relist", "re", "strconst") and isinstance(op, (ast.Eq, ast.NotEq)) and rv is not None \
                    and rv.kind == "strconst":
                body = f"(rcat {lv.text})" if lv.kind == "relist" else self.regex_of(lv, n).text
                t = f"(str_eqb (pr {body}) {rv.text})"
                return t if isinstance(op, ast.Eq) else f"(negb {t})"
        _fail(n, "condition not in the translated subset")

    # ---- statements ---------------------------------------------------------------------------
    def run(self, stmts, env):
        """Gallina term for the remaining statements of the loop body under `env`."""
        if not stmts:
            return self.finish(env)
        s, rest = stmts[0], stmts[1:]
        if isinstance(s, ast.Pass):
            return self.run(rest, env)
        if isinstance(s, ast.Raise):
            e = s.exc
            if not (isinstance(e, ast.Call) and isinstance(e.func, ast.Name) and e.func.id == "ValueError" and len(e.args) == 1):
                _fail(s, "raise of something else than ValueError(message)")
            msg = self.E(e.args[0], dict(env, **{self.pattern: V("str", "[]")}))
            text = msg.static if msg.kind in ("msg", "strconst") else None
            for prefix, kind in ERR_KINDS:
                if text is not None and text.startswith(prefix):
                    return f"CErr {kind}"
            _fail(s, "ValueError with an unknown message")
        if isinstance(s, ast.If):
            test = self.B(s.test, env)
            if test == "true":
                return self.run(list(s.body) + rest, env)
            if test == "false":
                return self.run(list(s.orelse) + rest, env)
            a = self.run(list(s.body) + rest, dict(env))
            b = self.run(list(s.orelse) + rest, dict(env))
            return f"(if {test}\n then {a}\n else {b})"
        if isinstance(s, ast.Assign) and len(s.targets) == 1:
            return self.assign(s, rest, env)
        if isinstance(s, ast.Expr) and isinstance(s.value, ast.Call) and isinstance(s.value.func, ast.Attribute):
            c = s.value
            recv = c.func.value
            if isinstance(recv, ast.Name) and self.role.get(recv.id) == "parts" and c.func.attr == "append" and len(c.args) == 1:
                r = self.regex_of(self.E(c.args[0], env), s)
                env = dict(env)
                env["@parts"] = V("relist", f"({env['@parts'].text} ++ [{r.text}])")
                return self.run(rest, env)
            if isinstance(recv, ast.Name) and self.role.get(recv.id) == "enc" and c.func.attr == "add" and len(c.args) == 1:
                a = self.E(c.args[0], env)
                if a.kind != "str":
                    _fail(s, "encountered.add of something else than the name")
                env = dict(env)
                env["@enc"] = V("strset", f"({a.text} :: {env['@enc'].text})")
                return self.run(rest, env)
        _fail(s, "statement not in the translated subset")

    def assign(self, s, rest, env):
        t = s.targets[0]
        env = dict(env)
        if isinstance(t, ast.Subscript) and isinstance(t.value, ast.Name):
            role = self.role.get(t.value.id)
            if role == "parts" and ast.unparse(t.slice) == "-1":
                r = self.regex_of(self.E(s.value, env), s)
                env["@parts"] = V("relist", f"(removelast {env['@parts'].text} ++ [{r.text}])")
                return self.run(rest, env)
            if role == "stars" and ast.unparse(t.slice) == f"len({self.name_of('parts')}) - 1":
                v = self.E(s.value, env)
                if v.kind != "str":
                    _fail(s, "star_names value")
                env["@stars"] = V("stars", f"(((length {env['@parts'].text} - 1)%nat, {v.text}) :: {env['@stars'].text})")
                return self.run(rest, env)
            _fail(s, "assignment to a subscript")
        if not isinstance(t, ast.Name):
            _fail(s, "assignment target")
        name = t.id
        role = self.role.get(name)
        if role == "last":
            v = self.E(s.value, env)
            if v.kind != "tok":
                _fail(s, "`last` assigned something else than the fragment")
            env["@last"] = V("otok", f"(Some {v.text})")
            return self.run(rest, env)
        if role is not None or name in (self.part, self.index, self.subs, self.allow, self.pattern):
            _fail(s, "assignment to a state variable or parameter")
        # calls that may raise
        v = s.value
        if isinstance(v, ast.Call) and isinstance(v.func, ast.Name):
            if v.func.id == "_get_wildcard_name" and len(v.args) == 2 and not v.keywords:
                a = self.E(v.args[0], env)
                if a.kind != "tok":
                    _fail(s, "_get_wildcard_name of something else than the fragment")
                x = self.newvar("name")
                env[name] = V("str", x)
                return f"match gen_get_wildcard_name {a.text} with CErr e => CErr e | COk {x} =>\n {self.run(rest, env)} end"
            if v.func.id == "convert_nglob_to_regex":
                if len(v.args) != 3 or v.keywords or ast.unparse(v.args[1]) != "{}" or ast.unparse(v.args[2]) != "False":
                    _fail(s, "recursive call with other arguments than (<sub-pattern>, {}, False)")
                a = self.E(v.args[0], env)
                if a.kind not in ("pat", "str", "strconst"):
                    _fail(s, "recursive call on something else than a sub-pattern")
                x = self.newvar("sub")
                env[name] = V("relist", x)
                return f"match rec {a.text} with CErr e => CErr e | COk {x} =>\n {self.run(rest, env)} end"
        val = self.E(v, env)
        if val.kind == "opat":
            # x = subs.get(name): split on None right away so that later `x is None` tests are static
            x = self.newvar("subpat")
            e1, e2 = dict(env), dict(env)
            e1[name] = NONE
            e2[name] = V("pat", x)
            return (f"match {val.text} with\n | None => {self.run(rest, e1)}\n"
                    f" | Some {x} => {self.run(rest, e2)}\n end")
        env[name] = val
        return self.run(rest, env)

    def name_of(self, role):
        return next(v for v, r in self.role.items() if r == role)

    def newvar(self, base):
        self.fresh += 1
        return f"{base}{self.fresh}"

    def finish(self, env):
        return (f"COk (mk_cst {env['@parts'].text} {env['@last'].text} {env['@enc'].text} {env['@stars'].text})")

    def translate(self):
        env = {self.part: V("tok", "part"),
               "@parts": V("relist", "(c_parts st)"), "@last": V("otok", "(c_last st)"),
               "@enc": V("strset", "(c_enc st)"), "@stars": V("stars", "(c_stars st)")}
        for v, role in self.role.items():
            env[v] = env["@" + role]
        self.alias = True
        return self.run(list(self.body), env)


class _Env(dict):
    pass


def generate():
    lp = Loop()
    # state variables are read through their role: keep python names bound to the current role value
    orig_run = lp.run

    def run(stmts, env):
        env = dict(env)
        for v, role in lp.role.items():
            env[v] = env["@" + role]
        return orig_run(stmts, env)

    lp.run = run
    tree = lp.translate()
    consts = sorted(lp.consts)
    lines = [
        "(* GENERATED by translator/gen_nglob_regex.py from /repo -- do not edit *)",
        "From Coq Require Import List NArith Bool Arith.",
        "From SV Require Import lib.Bytes.",
        "From SV Require Import lib.Regex.",
        "From SV Require Import model.Nglob.",
        "From SV Require Import model.NglobPy.",
        "From SV Require Import model.NglobPyRegex.",
        "From SV Require Import gen.GenNglobCode.",
        "Import ListNotations.",
        "Open Scope N_scope.",
        "(* one iteration of the main loop of convert_nglob_to_regex *)",
        "Definition gen_regex_frag (rec : str -> cres (list re)) (allow_names : bool) (subs : subs_t)",
        "    (st : cst) (ip : bool * tok) : cres cst :=",
        "  let odd := fst ip in let part := snd ip in",
        tree + ".",
        "(* the regex fragments the code assigns, with the model constant each was read as *)",
        "Definition gen_regex_consts : list (re * str) := ["
        + "; ".join(f"({FRAGMENTS[c]}, {coq_str(c)})" for c in consts) + "].",
        "",
    ]
    return "\n".join(lines), {"regex_loop_constants": consts, "regex_loop_tree_size": tree.count("if ")}


if __name__ == "__main__":
    print(generate()[0])
