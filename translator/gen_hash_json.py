"""Translator for C13, stored hashes: hash.py (FileHash / InpInfo / OutInfo / StepHash attrs classes,
to_json / from_json) + cattrs.py (json_converter) -> coq/gen/GenHashJson.v.

Read on every run, fail closed on any other shape:

  * the annotated fields of the four attrs classes, in order, with their types
        bytes | int | float | str | X | None | dict[str, X] | FileHash | InpInfo | OutInfo
    -> unstructure / structure terms built from the combinators of model/HashJsonTypes.v
  * FileHash.to_json (`None` for an unknown hash, else json.dumps(json_converter.unstructure(self))),
    FileHash.from_json (`None` -> cls.unknown(), else json_converter.structure(json.loads(value), cls)),
    StepHash.to_json / from_json (`None` -> None)
  * stepup/core/cattrs.py: json_converter = cattrs.preconf.json.make_converter() and no hook for
    bytes / the hash classes is registered on it
  * measured facts about the installed cattrs / base64 (the converter object that hash.py uses):
    bytes are unstructured as base64.b85encode(..).decode() ('' for b''), structured with b85decode;
    the Base85 alphabet base64._b85alphabet; attrs classes are unstructured as dicts keyed by field
    name in field order; a few probes of the digit arithmetic (incl. a padded group)
"""

from __future__ import annotations

import ast

from .astutil import TranslatorError, body_without_docstring, find_function, parse_module
from .gen_hash import coq_bytes

HASH = "stepup/core/hash.py"
CATTRS = "stepup/core/cattrs.py"

CLASSES = {
    # class -> (Coq record constructor, prefix, projections by field name)
    "FileHash": ("mk_fhash", "fh", {"digest": "fh_digest", "mode": "fh_mode", "mtime": "fh_mtime", "size": "fh_size",
                                    "inode": "fh_inode"}),
    "InpInfo": ("mk_ii", "ii", {"inp_hashes": "ii_inps", "env_values": "ii_envs", "env_overrides": "ii_ovrs"}),
    "OutInfo": ("mk_oi", "oi", {"out_hashes": "oi_outs"}),
    "StepHash": ("mk_sx", "sx", {"inp_digest": "sx_inp", "inp_info": "sx_info", "out_digest": "sx_out",
                                 "out_info": "sx_outinfo"}),
}
COQ_TYPE = {"FileHash": "fhash", "InpInfo": "inpinfo", "OutInfo": "outinfo", "StepHash": "stephash"}


def _u(n):
    return ast.unparse(n)


def _hooks(ann, where):
    """type annotation -> (unstructure term, structure term)."""
    if isinstance(ann, ast.Name):
        t = ann.id
        if t == "bytes":
            return "(j_bytes b85_alphabet)", "(s_bytes b85_alphabet)"
        if t in ("int", "float", "str"):
            return f"j_{t}", f"s_{t}"
        if t in CLASSES:
            p = CLASSES[t][1]
            return f"{p}_unstructure", f"{p}_structure"
        raise TranslatorError(f"{where}: unsupported field type {t}")
    if isinstance(ann, ast.BinOp) and isinstance(ann.op, ast.BitOr):
        l, r = ann.left, ann.right
        if isinstance(r, ast.Constant) and r.value is None:
            ju, js = _hooks(l, where)
            return f"(j_opt {ju})", f"(s_opt {js})"
        raise TranslatorError(f"{where}: unsupported union {_u(ann)}")
    if isinstance(ann, ast.Subscript) and _u(ann.value) == "dict" and isinstance(ann.slice, ast.Tuple) \
            and len(ann.slice.elts) == 2 and _u(ann.slice.elts[0]) == "str":
        ju, js = _hooks(ann.slice.elts[1], where)
        return f"(j_dict {ju})", f"(s_dict {js})"
    raise TranslatorError(f"{where}: unsupported field type {_u(ann)}")


def _class_fields(tree, name):
    cls = next((n for n in ast.walk(tree) if isinstance(n, ast.ClassDef) and n.name == name), None)
    if cls is None:
        raise TranslatorError(f"class {name} not found")
    decs = [_u(d) for d in cls.decorator_list]
    if not (len(decs) == 1 and decs[0].startswith("attrs.define")):
        raise TranslatorError(f"{name}: decorators {decs} (model: one attrs.define)")
    out = []
    for st in cls.body:
        if isinstance(st, ast.AnnAssign) and isinstance(st.target, ast.Name):
            if st.target.id.startswith("_"):
                raise TranslatorError(f"{name}: private field {st.target.id} (attrs strips the underscore)")
            v = st.value
            if v is not None and not (isinstance(v, ast.Call) and _u(v.func) == "attrs.field"):
                raise TranslatorError(f"{name}.{st.target.id}: default is not attrs.field(...)")
            for kw in (v.keywords if v is not None else []):
                if kw.arg in ("init", "alias", "metadata") :
                    raise TranslatorError(f"{name}.{st.target.id}: attrs.field({kw.arg}=...)")
            out.append((st.target.id, st.annotation))
    return out


def _check_methods(tree):
    tj = body_without_docstring(find_function(tree, "to_json", cls="FileHash"))
    if not (len(tj) == 2 and isinstance(tj[0], ast.If) and _u(tj[0].test) == "self.is_unknown"
            and [_u(s) for s in tj[0].body] == ["return None"] and not tj[0].orelse
            and _u(tj[1]) == "return json.dumps(json_converter.unstructure(self))"):
        raise TranslatorError("FileHash.to_json is not `None if unknown else json.dumps(json_converter.unstructure(self))`")
    fj = body_without_docstring(find_function(tree, "from_json", cls="FileHash"))
    if not (len(fj) == 2 and isinstance(fj[0], ast.If) and _u(fj[0].test) == "value is None"
            and [_u(s) for s in fj[0].body] == ["return cls.unknown()"] and not fj[0].orelse
            and _u(fj[1]) == "return json_converter.structure(json.loads(value), cls)"):
        raise TranslatorError("FileHash.from_json is not `unknown() if None else json_converter.structure(json.loads(value), cls)`")
    sj = body_without_docstring(find_function(tree, "to_json", cls="StepHash"))
    if [_u(s) for s in sj] != ["return json.dumps(json_converter.unstructure(self))"]:
        raise TranslatorError("StepHash.to_json is not json.dumps(json_converter.unstructure(self))")
    sf = body_without_docstring(find_function(tree, "from_json", cls="StepHash"))
    if not (len(sf) == 2 and isinstance(sf[0], ast.If) and _u(sf[0].test) == "value is None"
            and [_u(s) for s in sf[0].body] == ["return None"] and not sf[0].orelse
            and _u(sf[1]) == "return json_converter.structure(json.loads(value), cls)"):
        raise TranslatorError("StepHash.from_json is not `None if None else json_converter.structure(json.loads(value), cls)`")
    imp = [n for n in ast.walk(tree) if isinstance(n, ast.ImportFrom) and any(a.name == "json_converter" for a in n.names)]
    if not (len(imp) == 1 and imp[0].module == "cattrs" and imp[0].level == 1):
        raise TranslatorError("hash.py does not import json_converter from .cattrs")


def _check_converter():
    tree = parse_module(CATTRS)
    assigns = [_u(n) for n in tree.body if isinstance(n, ast.Assign) and _u(n.targets[0]) == "json_converter"]
    if assigns != ["json_converter = cattrs.preconf.json.make_converter()"]:
        raise TranslatorError(f"cattrs.py: json_converter is {assigns}")
    for fn in ("_register_path_hooks", "_register_nglob_hooks"):
        for n in ast.walk(find_function(tree, fn)):
            if isinstance(n, ast.Call) and isinstance(n.func, ast.Attribute) and "register" in n.func.attr:
                first = _u(n.args[0]) if n.args else ""
                if first not in ("Path", "NamedGlob"):
                    raise TranslatorError(f"cattrs.py: {fn} registers a hook for {first}")
    calls = [_u(n) for n in tree.body if isinstance(n, ast.Expr)and isinstance(n.value, ast.Call)]
    extra = [c for c in calls if "json_converter" in c and c not in ("_register_path_hooks(json_converter)",
                                                                     "_register_nglob_hooks(json_converter)")]
    if extra:
        raise TranslatorError(f"cattrs.py: json_converter is configured by {extra}")


def _measure():
    """Facts about the converter object itself (installed cattrs + base64)."""
    import base64
    import importlib
    import sys
    from .astutil import REPO
    if str(REPO) not in sys.path:
        sys.path.insert(0, str(REPO))
    mod = importlib.import_module("stepup.core.cattrs")
    conv = mod.json_converter
    probes = [b"", b"\0\0\0\0", b"\xff\xff\xff\xff", bytes(range(32)), b"u", b"\x01\x02\x03\x04\x05", bytes(range(200, 232))]
    for b in probes:
        want = base64.b85encode(b).decode() if b else ""
        if conv.unstructure(b) != want:
            raise TranslatorError(f"json_converter.unstructure({b!r}) = {conv.unstructure(b)!r} (model: b85encode {want!r})")
        if conv.structure(want, bytes) != b:
            raise TranslatorError(f"json_converter.structure({want!r}, bytes) != {b!r}")
    alphabet = getattr(base64, "_b85alphabet", None)
    if not (isinstance(alphabet, bytes) and len(alphabet) == 85 and len(set(alphabet)) == 85):
        raise TranslatorError("base64._b85alphabet is not 85 distinct bytes")
    # the digit arithmetic of the model on a few words (most significant digit first, '~' padding)
    for b in (b"\x00\x00\x00\x01", b"\x12\x34\x56\x78", b"\xff\xff\xff\xff"):
        v = int.from_bytes(b, "big")
        ds = [(v // 85 ** k) % 85 for k in (4, 3, 2, 1, 0)]
        if base64.b85encode(b) != bytes(alphabet[d] for d in ds):
            raise TranslatorError("base64.b85encode does not write five base-85 digits, most significant first")
    return alphabet


def generate():
    tree = parse_module(HASH)
    _check_methods(tree)
    _check_converter()
    alphabet = _measure()
    lines = [
        "(* GENERATED by translator/gen_hash_json.py from /repo/stepup/core/{hash,cattrs}.py and the installed",
        "   cattrs / base64 -- do not edit *)",
        "From Coq Require Import List NArith Bool.",
        "From SV Require Import lib.Bytes lib.KeySort lib.Base85 model.HashTypes gen.GenHash model.HashJsonTypes.",
        "Import ListNotations.",
        "Open Scope N_scope.",
        "(* base64._b85alphabet; cattrs.preconf.json: bytes <-> b85encode(..).decode() / b85decode *)",
        f"Definition b85_alphabet : str := {coq_bytes(alphabet)}.",
    ]
    keys_done = set()
    facts = {"classes": {}}
    for cname in ("FileHash", "InpInfo", "OutInfo", "StepHash"):
        ctor, p, projs = CLASSES[cname]
        fields = _class_fields(tree, cname)
        names = [f for f, _ in fields]
        if names != list(projs):
            raise TranslatorError(f"{cname}: fields {names} (model: {list(projs)})")
        facts["classes"][cname] = [[f, _u(a)] for f, a in fields]
        lines.append(f"(* hash.{cname}: {', '.join(f + ': ' + _u(a) for f, a in fields)} *)")
        for f, _ in fields:
            if f not in keys_done:
                keys_done.add(f)
                lines.append(f"Definition k_{f} : str := {coq_bytes(f.encode())}.  (* {f!r} *)")
        hooks = [(f, _hooks(a, f"{cname}.{f}")) for f, a in fields]
        ty = COQ_TYPE[cname]
        lines.append(f"Definition {p}_unstructure (x : {ty}) : jval :=")
        lines.append("  JObj [" + "; ".join(f"(k_{f}, {ju} ({projs[f]} x))" for f, (ju, _) in hooks) + "].")
        lines.append(f"Definition {p}_structure (j : jval) : option {ty} :=")
        for f, (_, js) in hooks:
            lines.append(f"  obind (ofield {js} k_{f} j) (fun {f} =>")
        lines.append(f"  Some ({ctor} {' '.join(names)})" + ")" * len(hooks) + ".")
    lines += [
        "(* FileHash.to_json / from_json: None (SQL NULL) stands for the unknown hash *)",
        "Definition fh_to_json (h : fhash) : option jval := if fh_is_unknown h then None else Some (fh_unstructure h).",
        "Definition fh_from_json (v : option jval) : option fhash :=",
        "  match v with None => Some fh_unknown | Some j => fh_structure j end.",
        "(* StepHash.to_json / from_json *)",
        "Definition sx_to_json (x : stephash) : jval := sx_unstructure x.",
        "Definition sx_from_json (v : option jval) : option (option stephash) :=",
        "  match v with None => Some None | Some j => option_map Some (sx_structure j) end.",
        "",
    ]
    facts["alphabet"] = alphabet.decode()
    return "\n".join(lines), facts


if __name__ == "__main__":
    print(generate()[0])
