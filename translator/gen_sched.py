"""Translator for C10/C11: scheduler SQL, triggers and the Python glue around them -> GenSched.v.

Fail closed: every SQL constant that the model re-expresses is compared, after comment and
whitespace normalisation, with an expected text that is rebuilt from the *current* enum values
(so renumbering an enum is fine, any other edit is not); the boolean fragments
(UNAVAILABLE_INPUT_WHERE, STEP_DISPATCH_WHERE, REGULAR_OUTPUT_WHERE, trigger WHEN clauses) are
parsed by sqlexpr and emitted as data; the bodies of the STEP_SCHEMA triggers are parsed statement by
statement into (flag column, target) lists that the model interprets; the Python functions whose
control flow the model mirrors are pinned by their normalised source (translator/gen_sched_pins.py).

Two shapes are accepted where a repair of a known defect changes the text:
  * FILL_SAFE_UPDATE ending in `MIN(safe), MIN(safe_nh) ... GROUP BY i`  -> safe_merge = MergeMin
    or the depth-carrying variant selecting the row of maximal depth       -> safe_merge = MergeDeepest
  * the dependency triggers with or without the extra statement flagging the producers of the
    source file (`node IN (SELECT source FROM dependency WHERE sink = OLD.source)`).
"""

from __future__ import annotations

import ast
import importlib
import re
import sys

from . import sqlexpr
from .astutil import REPO, TranslatorError, find_function, parse_module

CORE = "stepup/core"


# ---------------------------------------------------------------------------------------------
# normalisation helpers
# ---------------------------------------------------------------------------------------------


def norm_sql(s: str) -> str:
    s = re.sub(r"\s+", " ", sqlexpr.strip_comments(s)).strip()
    s = re.sub(r"\(\s+", "(", s)
    s = re.sub(r"\s+\)", ")", s)
    # spellings that SQLite treats alike
    s = re.sub(r"\bINNER JOIN\b", "JOIN", s)
    s = s.replace("<>", "!=")
    return s


class _Strip(ast.NodeTransformer):
    """Drop docstrings, logger calls and reporter messages (no effect on the database)."""

    def visit_Expr(self, node):
        v = node.value
        if isinstance(v, ast.Constant) and isinstance(v.value, str):
            return None
        if isinstance(v, ast.Call) and isinstance(v.func, ast.Attribute) \
                and isinstance(v.func.value, ast.Name) and v.func.value.id == "logger":
            return None
        return node


def _is_logger_call(node) -> bool:
    v = node.value if isinstance(node, ast.Expr) else None
    return (isinstance(v, ast.Call) and isinstance(v.func, ast.Attribute)
            and isinstance(v.func.value, ast.Name) and v.func.value.id == "logger")


class _Canon(ast.NodeTransformer):
    """Harmless rewrites that must not matter for a pinned function: docstrings, logger calls (also when guarded by
    `if logger.isEnabledFor(...)`), the names of local variables (renamed in order of first binding), `pass`."""

    def __init__(self, fn):
        self.names = {}
        args = fn.args
        bound = [a.arg for a in args.posonlyargs + args.args + args.kwonlyargs]
        for a in (args.vararg, args.kwarg):
            if a is not None:
                bound.append(a.arg)
        for node in ast.walk(fn):
            if isinstance(node, ast.Name) and isinstance(node.ctx, ast.Store):
                bound.append(node.id)
            elif isinstance(node, ast.ExceptHandler) and node.name:
                bound.append(node.name)
        for n in bound:
            if n not in self.names and n not in ("self", "cls"):
                self.names[n] = f"v{len(self.names)}"

    def visit_Name(self, node):
        if node.id in self.names:
            return ast.copy_location(ast.Name(id=self.names[node.id], ctx=node.ctx), node)
        return node

    def visit_arg(self, node):
        if node.arg in self.names:
            node.arg = self.names[node.arg]
        return node

    def visit_If(self, node):
        self.generic_visit(node)
        t = node.test
        if (isinstance(t, ast.Call) and isinstance(t.func, ast.Attribute) and t.func.attr == "isEnabledFor"
                and isinstance(t.func.value, ast.Name) and t.func.value.id == "logger" and not node.orelse
                and all(_is_logger_call(b) or isinstance(b, ast.Pass) for b in node.body)):
            return None
        if not node.body:
            node.body = [ast.Pass()]
        return node

    def visit_Expr(self, node):
        v = node.value
        if isinstance(v, ast.Constant) and isinstance(v.value, str):
            return None
        if _is_logger_call(node):
            return None
        return self.generic_visit(node)


def canon_fn_node(fn) -> str:
    fn = _Canon(fn).visit(fn)
    # keyword arguments at call sites keep their names (they belong to the callee)
    ast.fix_missing_locations(fn)
    return ast.unparse(fn)


def canon_fn_text(text: str) -> str:
    mod = ast.parse(text)
    return canon_fn_node(mod.body[0])


def norm_fn(rel: str, name: str, cls: str | None) -> str:
    fn = find_function(parse_module(rel), name, cls)
    fn = _Strip().visit(fn)
    ast.fix_missing_locations(fn)
    return ast.unparse(fn)


PINNED_FUNCS = [
    (f"{CORE}/scheduler.py", "pop_next_job", "Scheduler"),
    (f"{CORE}/scheduler.py", "_get_next_step", "Scheduler"),
    (f"{CORE}/scheduler.py", "_update_meta_safe", "Scheduler"),
    (f"{CORE}/scheduler.py", "_update_meta_after", "Scheduler"),
    (f"{CORE}/scheduler.py", "_update_meta_ready", "Scheduler"),
    (f"{CORE}/scheduler.py", "_any_flagged", "Scheduler"),
    (f"{CORE}/scheduler.py", "_clear_flag", "Scheduler"),
    (f"{CORE}/step.py", "mark_completed", "Step"),
    (f"{CORE}/step.py", "hold", "Step"),
    (f"{CORE}/step.py", "release", "Step"),
    (f"{CORE}/step.py", "detach", "Step"),
    (f"{CORE}/step.py", "reattach", "Step"),
    (f"{CORE}/step.py", "_flag_checks_with_products", "Step"),
    (f"{CORE}/step.py", "initialize_row", "Step"),
    (f"{CORE}/step.py", "set_state", "Step"),
    (f"{CORE}/step.py", "_increment_defer_count", "Step"),
    (f"{CORE}/step.py", "has_unavailable_dynamic_input", "Step"),
    (f"{CORE}/builder.py", "job_loop", "Builder"),
    (f"{CORE}/finalize.py", "revert_optional_steps", None),
    (f"{CORE}/tui.py", "_normalize_targets", None),
    (f"{CORE}/workflow.py", "need_threshold", "Workflow"),
]


def current_pins() -> dict:
    return {f"{rel}:{cls or ''}:{name}": norm_fn(rel, name, cls) for rel, name, cls in PINNED_FUNCS}


UPDATE_AFTER_KEY = f"{CORE}/scheduler.py:Scheduler:_update_meta_after"
_FIRST0_RE = re.compile(r"^(\s*)first = (True|False)$", re.M)


def check_pins():
    from . import gen_sched_pins
    cur = current_pins()
    for key, text in cur.items():
        exp = gen_sched_pins.PINS.get(key)
        if exp is None:
            raise TranslatorError(f"no pinned source for {key}")
        if key == UPDATE_AFTER_KEY:
            # the initial value of `first` is translated (first_round_value), everything else is pinned
            exp = _FIRST0_RE.sub(r"\1first = FIRST0_PLACEHOLDER", exp, count=1)
            text = _FIRST0_RE.sub(r"\1first = FIRST0_PLACEHOLDER", text, count=1)
        if exp.rstrip("\n") != text.rstrip("\n") and canon_fn_text(exp) != canon_fn_text(text):
            raise TranslatorError(f"source of {key} differs from the shape the model mirrors")


def first_round_value() -> bool:
    """Scheduler._update_meta_after: the value its variable `first` has in the first iteration of the loop (the
    statement before the `while`); the assignment inside the loop must be `first = False`."""
    fn = find_function(parse_module(f"{CORE}/scheduler.py"), "_update_meta_after", "Scheduler")
    outer = [n for n in fn.body if isinstance(n, ast.Assign) and len(n.targets) == 1
             and isinstance(n.targets[0], ast.Name) and n.targets[0].id == "first"]
    loops = [n for n in fn.body if isinstance(n, ast.While)]
    if len(outer) != 1 or len(loops) != 1 or not isinstance(outer[0].value, ast.Constant) \
            or not isinstance(outer[0].value.value, bool) or fn.body.index(outer[0]) > fn.body.index(loops[0]):
        raise TranslatorError("_update_meta_after: initial assignment of `first` not recognised")
    inner = [n for n in ast.walk(loops[0]) if isinstance(n, ast.Assign) and len(n.targets) == 1
             and isinstance(n.targets[0], ast.Name) and n.targets[0].id == "first"]
    if len(inner) != 1 or not (isinstance(inner[0].value, ast.Constant) and inner[0].value.value is False):
        raise TranslatorError("_update_meta_after: `first` is not reset to False inside the loop")
    return outer[0].value.value


# ---------------------------------------------------------------------------------------------
# repo modules
# ---------------------------------------------------------------------------------------------


def _import_repo():
    repo = str(REPO)
    if repo not in sys.path:
        sys.path.insert(0, repo)
    mods = {}
    for name in ("enums", "step", "scheduler", "file", "workflow", "finalize"):
        try:
            mods[name] = importlib.import_module(f"stepup.core.{name}")
        except Exception as e:  # noqa: BLE001
            raise TranslatorError(f"cannot import stepup.core.{name}: {type(e).__name__}: {e}") from e
        f = getattr(mods[name], "__file__", "")
        if not str(f).startswith(repo):
            raise TranslatorError(f"stepup.core.{name} imported from {f}, not from {repo}")
    return mods


def _const(mod, name):
    try:
        v = getattr(mod, name)
    except AttributeError as e:
        raise TranslatorError(f"{mod.__name__}.{name} is missing") from e
    if not isinstance(v, str):
        raise TranslatorError(f"{mod.__name__}.{name} is not a string")
    return v


# ---------------------------------------------------------------------------------------------
# expected SQL texts, rebuilt from the enum values
# ---------------------------------------------------------------------------------------------


def expected_sql(E, frag, ru, dir_range):
    SS, FS, ND = E.StepState, E.FileState, E.Need
    ok = f"({SS.RUNNING.value}, {SS.SUCCEEDED.value})"
    ro = frag["REGULAR_OUTPUT_WHERE"]
    ui = frag["UNAVAILABLE_INPUT_WHERE"]
    dw = frag["STEP_DISPATCH_WHERE"]
    x = {}
    seed = (
        "SELECT s.node, "
        f"COALESCE(creator_step._safe AND creator_step.state IN {ok} AND creator_step._holding = 0, 1), "
        f"COALESCE(creator_step._safe AND creator_step.state IN {ok} AND creator_step._holding = 0, 1) "
        f"AND s.state IN {ok} AND s._holding = 0, "
        f"COALESCE(creator_step._safe_ignoring_hold AND creator_step.state IN {ok}, 1), "
        f"COALESCE(creator_step._safe_ignoring_hold AND creator_step.state IN {ok}, 1) AND s.state IN {ok}"
    )
    seed_from = (" FROM step AS s JOIN node AS cnode ON cnode.i = s.node "
                 "LEFT JOIN step AS creator_step ON creator_step.node = cnode.creator WHERE s._check_safe")
    rec = (
        "SELECT sp.node, trace.chain, "
        f"trace.chain AND sp.state IN {ok} AND sp._holding = 0, trace.chain_nh, "
        f"trace.chain_nh AND sp.state IN {ok}"
    )
    rec_from = (" FROM trace JOIN node AS product ON product.creator = trace.i "
                "JOIN step AS sp ON sp.node = product.i")
    x["FILL_SAFE_UPDATE:min"] = (
        "INSERT INTO safe_update(i, safe, safe_nh) "
        "WITH RECURSIVE trace(i, safe, chain, safe_nh, chain_nh) AS (" + seed + seed_from
        + " UNION ALL " + rec + rec_from + ") SELECT i, MIN(safe), MIN(safe_nh) FROM trace GROUP BY i")
    x["FILL_SAFE_UPDATE:deepest"] = (
        "INSERT INTO safe_update(i, safe, safe_nh) "
        "WITH RECURSIVE trace(i, safe, chain, safe_nh, chain_nh, depth) AS (" + seed + ", 0" + seed_from
        + " UNION ALL " + rec + ", trace.depth + 1" + rec_from
        + ") SELECT i, safe, safe_nh FROM (SELECT i, safe, safe_nh, MAX(depth) FROM trace GROUP BY i)")
    x["APPLY_SAFE_UPDATE"] = (
        "UPDATE step SET _safe = (SELECT safe FROM safe_update WHERE safe_update.i = step.node), "
        "_safe_ignoring_hold = (SELECT safe_nh FROM safe_update WHERE safe_update.i = step.node) "
        "WHERE step.node IN (SELECT i FROM safe_update)")
    x["SEED_CHECK_AFTER"] = ("INSERT INTO check_after(i) SELECT step.node FROM step JOIN node ON step.node = node.i "
                             "WHERE NOT node.detached AND step._check_after")
    outq = ("SELECT 1 FROM dependency AS depo JOIN node AS onode ON onode.i = depo.sink "
            "JOIN file AS ofile ON ofile.node = depo.sink WHERE depo.source = check_after.i AND " + ro)
    x["UPDATE_CHECK_AFTER"] = (
        "WITH cte AS (SELECT check_after.i AS i, step._implied_need AS old_implied_need, "
        "MAX(step.need, CASE WHEN EXISTS (" + outq + " AND onode.label IN (SELECT path FROM target_path)) "
        f"THEN {ND.TARGET.value} WHEN step.need = {ND.DEFAULT.value} AND EXISTS (" + outq
        + " AND EXISTS (SELECT 1 FROM target_dir WHERE " + dir_range + ")) "
        f"THEN {ND.TARGET.value} ELSE {ND.OPTIONAL.value} END, "
        f"COALESCE(MAX(sink_step._implied_need), {ND.OPTIONAL.value})) AS new_implied_need, "
        "step._tail_time AS old_tail_time, "
        "(step.duration + COALESCE(MAX(sink_step._tail_time), 0)) AS new_tail_time "
        "FROM check_after JOIN step ON step.node = check_after.i "
        "LEFT JOIN dependency AS dep1 ON dep1.source = check_after.i "
        "LEFT JOIN dependency AS dep2 ON dep2.source = dep1.sink "
        "LEFT JOIN node AS sink_node ON (sink_node.i = dep2.sink AND NOT sink_node.detached) "
        "LEFT JOIN step AS sink_step ON (sink_step.node = sink_node.i) GROUP BY check_after.i) "
        "UPDATE step SET _implied_need = upd.new_implied_need, _tail_time = upd.new_tail_time "
        "FROM (SELECT i, new_implied_need, new_tail_time FROM cte "
        "WHERE :first OR (new_implied_need != old_implied_need OR new_tail_time != old_tail_time)) AS upd "
        "WHERE step.node = upd.i RETURNING step.node")
    x["PROPAGATE_CHECK_AFTER"] = (
        "INSERT INTO check_after(i) SELECT DISTINCT source_step.node FROM dependency AS dep2 "
        "JOIN step AS source_step ON source_step.node = dep2.source "
        "JOIN node AS source_node ON source_step.node = source_node.i "
        "WHERE NOT source_node.detached AND dep2.sink IN (SELECT dep1.source FROM dependency AS dep1 "
        "WHERE dep1.sink IN (SELECT i FROM changed_after))")
    x["RECOMPUTE_READY"] = (
        "UPDATE step SET _ready = NOT EXISTS (SELECT 1 FROM dependency AS dep "
        "JOIN file AS input_file ON input_file.node = dep.source "
        "JOIN node AS input_node ON input_node.i = dep.source "
        "LEFT JOIN dynamic_dep ON dynamic_dep.i = dep.i WHERE dep.sink = step.node AND (" + ui + ")), "
        "_check_ready = 0 WHERE _check_ready")
    x["RECURSIVE_CHECK_WITH_PRODUCTS"] = (
        "UPDATE step SET _check_safe = 1, _check_after = 1 FROM (WITH RECURSIVE check_with_products(node) AS ("
        "SELECT node FROM step WHERE node = ? UNION ALL SELECT i FROM node JOIN check_with_products "
        "ON node.creator = check_with_products.node WHERE node.kind = 'step') "
        "SELECT node FROM check_with_products) AS cwp WHERE step.node = cwp.node")
    x["RECONCILE_TARGET_DIRS"] = (
        "UPDATE step SET _check_after = 1 WHERE node IN (SELECT depo.source FROM target_dir "
        "CROSS JOIN node AS onode ON (onode.kind = 'file' AND onode.label >= target_dir.path "
        "AND onode.label < target_dir.upper) JOIN dependency AS depo ON depo.sink = onode.i "
        "JOIN file AS ofile ON ofile.node = onode.i WHERE " + ro + ")")
    x["CREATE_OPTIONAL_STEP_TABLE"] = (
        "CREATE TEMP TABLE optional_step AS SELECT step.node AS i, node.label, step.state FROM step "
        f"JOIN node ON step.node = node.i WHERE _implied_need = {ND.OPTIONAL.value} AND NOT node.detached")
    x["CREATE_OPTIONAL_TO_BE_DELETED_TABLE"] = (
        "CREATE TEMP TABLE optional_to_be_deleted AS SELECT node.i, node.label, file.state, file.hash FROM file "
        "JOIN node ON file.node = node.i JOIN dependency ON dependency.sink = node.i "
        "JOIN optional_step ON dependency.source = optional_step.i WHERE file.state IN "
        f"({FS.VOLATILE.value}, {FS.BUILT.value}, {FS.OUTDATED.value})")
    x["UPDATE_OPTIONAL_STEPS"] = (
        f"UPDATE step SET state = {SS.PENDING.value} FROM optional_step WHERE step.node = optional_step.i "
        f"AND step.state != {SS.PENDING.value}")
    x["SELECT_OPTIONAL_TO_BE_DELETED"] = "SELECT label, state, hash FROM optional_to_be_deleted"
    x["UPDATE_OPTIONAL_TO_BE_DELETED"] = (
        f"UPDATE file SET state = {FS.PLANNED.value}, hash = NULL FROM optional_to_be_deleted "
        f"WHERE file.node = optional_to_be_deleted.i AND file.state != {FS.VOLATILE.value}")
    return {k: norm_sql(v) for k, v in x.items()}


# ---------------------------------------------------------------------------------------------
# RECURSIVE_CHECK_AFTER_SOURCES (Step.detach): translated, not pinned
# ---------------------------------------------------------------------------------------------

CAS_HEAD = (
    "UPDATE step SET _check_after = 1 FROM (WITH RECURSIVE subtree(node) AS ("
    "SELECT node FROM step WHERE node = ? UNION ALL SELECT i FROM node JOIN subtree "
    "ON node.creator = subtree.node WHERE node.kind = 'step') "
    "SELECT DISTINCT dep2.source AS node FROM subtree JOIN dependency AS dep1 ON dep1.sink = subtree.node "
    "JOIN dependency AS dep2 ON dep2.sink = dep1.source JOIN node AS source_node ON source_node.i = dep2.source "
    "WHERE ")
CAS_TAIL = ") AS sup WHERE step.node = sup.node"
# conjuncts of the WHERE clause that selects the source steps -> atom of the model (Sched.cas_atom_holds)
CAS_ATOMS = [
    (r"source_node\.kind = 'step'", "CasSrcIsStep"),
    (r"NOT source_node\.detached", "CasSrcAttached"),
    # "leave a producer alone while another attached node still consumes the file"
    (r"NOT EXISTS \(SELECT 1 FROM dependency AS (\w+) JOIN node AS (\w+) ON \2\.i = \1\.sink "
     r"WHERE \1\.source = dep1\.source AND NOT \2\.detached\)", "CasNoOtherAttachedConsumer"),
    # "... while any other edge leaves the file"
    (r"NOT EXISTS \(SELECT 1 FROM dependency AS (\w+) WHERE \1\.source = dep1\.source "
     r"AND \1\.sink (?:!=|<>) dep1\.sink\)", "CasNoOtherConsumer"),
]


def split_top_and(text: str) -> list[str]:
    """Split a boolean SQL text at the ANDs that are not inside parentheses."""
    parts, depth, cur, i = [], 0, [], 0
    while i < len(text):
        c = text[i]
        if c == "(":
            depth += 1
        elif c == ")":
            depth -= 1
        if depth == 0 and text[i:i + 5] == " AND ":
            parts.append("".join(cur).strip())
            cur, i = [], i + 5
            continue
        cur.append(c)
        i += 1
    parts.append("".join(cur).strip())
    return parts


def parse_check_after_sources(sql: str) -> list[str]:
    """The query that Step.detach runs to flag the producers two dependency hops upstream of the detached step
    subtree.  The frame (recursive subtree over step products, two joins over dependency, UPDATE of _check_after)
    is compared literally; the WHERE clause that selects the source nodes is translated conjunct by conjunct into
    atoms the model interprets (any other conjunct: fail closed)."""
    text = norm_sql(sql)
    if not (text.startswith(CAS_HEAD) and text.endswith(CAS_TAIL)):
        raise TranslatorError("SQL constant RECURSIVE_CHECK_AFTER_SOURCES: frame differs from the shape the model re-expresses")
    where = text[len(CAS_HEAD):len(text) - len(CAS_TAIL)]
    atoms = []
    for conj in split_top_and(where):
        for pat, atom in CAS_ATOMS:
            if re.fullmatch(pat, conj):
                atoms.append(atom)
                break
        else:
            raise TranslatorError(f"RECURSIVE_CHECK_AFTER_SOURCES: WHERE conjunct not recognised: {conj!r}")
    return atoms


# ---------------------------------------------------------------------------------------------
# RESOURCE_UNAVAILABLE (inside SELECT_NEXT_STEP): translated, not pinned
# ---------------------------------------------------------------------------------------------

RU_RE = re.compile(
    r"SELECT 1 FROM step_resource AS req LEFT JOIN available_resource AS avail ON avail\.name = req\.name "
    r"WHERE req\.node = node\.i AND \(avail\.name IS NULL OR \(avail\.units - COALESCE\(\(SELECT SUM\(r2\.units\) "
    r"FROM step_resource AS r2 JOIN step AS s2 ON s2\.node = r2\.node"
    r"(?P<join> JOIN node AS (?P<n2>\w+) ON (?P=n2)\.i = (?:r2|s2)\.node)? "
    r"WHERE (?P<where>.*?)\), 0\)\) < req\.units\)")


def parse_resource_unavailable(text: str, running: int) -> list[str]:
    """The named-resource term of the dispatch query: a required resource is unavailable when it is unknown or
    when the units left after subtracting the units of some set of steps do not suffice.  The frame is compared
    literally; WHICH steps' units are subtracted (the conjuncts of the inner WHERE) is translated into atoms
    that the model interprets (Sched.ru_atom_holds)."""
    m = RU_RE.fullmatch(text)
    if not m:
        raise TranslatorError("SQL constant RESOURCE_UNAVAILABLE: frame differs from the shape the model re-expresses")
    conjs = split_top_and(m.group("where"))
    if "r2.name = req.name" not in conjs:
        raise TranslatorError("RESOURCE_UNAVAILABLE: the subtracted units are not those of the required resource")
    conjs.remove("r2.name = req.name")
    atoms = []
    n2 = m.group("n2")
    for c in conjs:
        if c == f"s2.state = {running}":
            atoms.append("RuRunning")
        elif n2 and c == f"NOT {n2}.detached":
            atoms.append("RuAttached")
        else:
            raise TranslatorError(f"RESOURCE_UNAVAILABLE: inner WHERE conjunct not recognised: {c!r}")
    return atoms


# ---------------------------------------------------------------------------------------------
# Workflow.reconcile_targets: translated statement by statement, not pinned
# ---------------------------------------------------------------------------------------------

RECONCILE_LOOP = """for path in sorted(self.targets):
    file = self.find_attached(File, path)
    if file is None:
        continue
    state = file.get_state()
    if state in TARGET_FORBIDDEN_STATES:
        if not self._creator_chain_pending(file):
            self._raise_if_forbidden_target(path, state)
        continue
    creator = file.creator()
    if isinstance(creator, Step):
        self.db.execute('UPDATE step SET _check_after = 1 WHERE node = ?', (creator.i,))"""

# the same loop without its last two statements (validation only)
RECONCILE_LOOP_NO_FLAG = RECONCILE_LOOP[:RECONCILE_LOOP.index("\n    creator = file.creator()")]


def parse_reconcile_targets(E) -> tuple[bool, bool, bool]:
    """Which of the three flagging parts Workflow.reconcile_targets has.  The function is compared, after the
    canonicalisation of pinned functions (docstrings, logger calls, names of locals), with the twelve functions that
    can be assembled from
      stale  self.db.execute(f"UPDATE step SET _check_after = 1 WHERE _implied_need = {Need.TARGET.value}")
      exact  the loop over sorted(self.targets) that flags the creator step of an attached target file
             (or the same loop without its last two statements: validation only -> part missing)
      dirs   self.db.execute(RECONCILE_TARGET_DIRS)
    in this order; anything else: fail closed."""
    fn = find_function(parse_module(f"{CORE}/workflow.py"), "reconcile_targets", "Workflow")
    # the stale-elevation UPDATE must name Need.TARGET
    for node in ast.walk(fn):
        if isinstance(node, ast.JoinedStr):
            for v in node.values:
                if not isinstance(v, ast.Constant) and ast.unparse(v.value) != "Need.TARGET.value":
                    raise TranslatorError("reconcile_targets: unexpected interpolation in an SQL text")
    got = canon_fn_node(fn)
    stale_stmt = 'self.db.execute(f"UPDATE step SET _check_after = 1 WHERE _implied_need = {Need.TARGET.value}")'
    dirs_stmt = "self.db.execute(RECONCILE_TARGET_DIRS)"

    def indent(text):
        return "\n".join("    " + line for line in text.splitlines())

    for stale in (True, False):
        for loop, exact in ((RECONCILE_LOOP, True), (RECONCILE_LOOP_NO_FLAG, False), (None, False)):
            for dirs in (True, False):
                body = ([stale_stmt] if stale else []) + ([loop] if loop else []) + ([dirs_stmt] if dirs else [])
                text = "def reconcile_targets(self):\n" + "\n".join(indent(b) for b in (body or ["pass"]))
                if canon_fn_text(text) == got:
                    return stale, exact, dirs
    raise TranslatorError("reconcile_targets: not one of the shapes the model interprets")


# ---------------------------------------------------------------------------------------------
# UPDATE_CHECK_AFTER: the label range of a directory target is translated (two comparison operators)
# ---------------------------------------------------------------------------------------------

DIR_RANGE_RE = re.compile(r"AND EXISTS \(SELECT 1 FROM target_dir WHERE (.*?)\)\) THEN ")
_CMP = {">=": "CGe", ">": "CGt", "<": "CLt", "<=": "CLe"}


def parse_dir_range(text: str) -> tuple[str, tuple[str, str]]:
    """(range text as written, (operator against target_dir.path, operator against target_dir.upper))."""
    m = DIR_RANGE_RE.search(text)
    if not m:
        raise TranslatorError("UPDATE_CHECK_AFTER: directory-target range not found")
    rng = m.group(1)
    if rng == "onode.label BETWEEN target_dir.path AND target_dir.upper":
        return rng, ("CGe", "CLe")
    m2 = re.fullmatch(r"onode\.label (>=|>) target_dir\.path AND onode\.label (<=|<) target_dir\.upper", rng)
    if not m2:
        raise TranslatorError(f"UPDATE_CHECK_AFTER: directory-target range not recognised: {rng!r}")
    return rng, (_CMP[m2.group(1)], _CMP[m2.group(2)])


# ---------------------------------------------------------------------------------------------
# SELECT_NEXT_STEP: frame compared, WHERE translated conjunct by conjunct
# ---------------------------------------------------------------------------------------------

SN_HEAD = ("SELECT node.i, node.label, step._has_hash FROM step INDEXED BY step_dispatch "
           "JOIN node ON node.i = step.node WHERE ")


def parse_select_next_step(text: str, dw: str, ru: str, plan_need: int) -> list[str]:
    """The dispatch query: SELECT list, FROM / JOIN, ORDER BY and LIMIT are compared literally; the WHERE clause must
    be the shared fragment STEP_DISPATCH_WHERE followed by conjuncts that the model interprets (Sched.sn_atom_holds)."""
    tail = (f" ORDER BY step._has_hash DESC, (step._implied_need = {plan_need}) DESC, "
            "step._tail_time / (1 + step.defer_count) DESC LIMIT 1")
    if not (text.startswith(SN_HEAD) and text.endswith(tail)):
        raise TranslatorError("SQL constant SELECT_NEXT_STEP: frame differs from the shape the model re-expresses")
    where = text[len(SN_HEAD):len(text) - len(tail)]
    atoms = []
    if where.startswith(dw + " AND "):
        atoms.append("SnDispatchWhere")
        where = where[len(dw) + 5:]
    elif where == dw:
        return ["SnDispatchWhere"]
    else:
        raise TranslatorError("SELECT_NEXT_STEP: WHERE does not start with STEP_DISPATCH_WHERE")
    known = {"step._implied_need > ?": "SnAboveThreshold", "NOT node.detached": "SnAttached",
             "(step._has_hash OR NOT EXISTS (" + ru + "))": "SnHashOrResources"}
    for conj in split_top_and(where):
        if conj not in known or known[conj] in atoms:
            raise TranslatorError(f"SELECT_NEXT_STEP: WHERE conjunct not recognised: {conj[:80]!r}")
        atoms.append(known[conj])
    return atoms


# ---------------------------------------------------------------------------------------------
# triggers
# ---------------------------------------------------------------------------------------------

TRIGGER_RE = re.compile(
    r"CREATE (TEMP )?TRIGGER IF NOT EXISTS (\w+) AFTER (INSERT|DELETE|UPDATE OF [\w, ]+?) ON (\w+) "
    r"(?:WHEN (.*?) )?BEGIN (.*?) END;")

# trigger name -> (event, table) the model expects
FLAG_TRIGGERS = {
    "step_dependency_check_after_ins": ("INSERT", "dependency"),
    "step_dependency_check_after_del": ("DELETE", "dependency"),
    "step_file_check_ready_upd": ("UPDATE OF state", "file"),
    "step_file_check_ready_ins": ("INSERT", "file"),
    "step_node_check_ready_detached": ("UPDATE OF detached", "node"),
    "step_flag_check_after_duration": ("UPDATE OF duration", "step"),
    "step_flag_check_safe": ("UPDATE OF state", "step"),
    "step_reset_holding": ("UPDATE OF state", "step"),
    "step_clear_deferred": ("UPDATE OF state", "step"),
    "step_reset_defer_count": ("UPDATE OF state", "step"),
    "dynamic_dep_check_ready_ins": ("INSERT", "dynamic_dep"),
    "dynamic_dep_check_ready_del": ("DELETE", "dynamic_dep"),
    "step_hash_ins": ("INSERT", "step_hash"),
    "step_hash_del": ("DELETE", "step_hash"),
}
# triggers that may or may not be there; the model is generated for either tree
#   step_node_undefer_reattached (candidate fix of D39): a node whose detached flag goes 1 -> 0 clears
#   `deferred` of its consumers
OPTIONAL_TRIGGERS = {
    "step_node_undefer_reattached": ("UPDATE OF detached", "node"),
}
UNDEFER_WHEN = ("and", ("col", "OLD", "detached"), ("not", ("col", "NEW", "detached")))
UNDEFER_BODY = (r"UPDATE step SET deferred = (?:FALSE|0) WHERE deferred AND "
                r"node IN \(SELECT sink FROM dependency WHERE source = NEW\.i\);?")
UNDEFER_BODY_REFINED = (r"UPDATE step SET deferred = (?:FALSE|0) WHERE deferred AND "
                        r"node IN \(SELECT sink FROM dependency WHERE source = NEW\.i\) AND NOT EXISTS \((.*)\);?")
# progress counters only (step_need_count); they never touch the columns modelled here
COUNTER_TRIGGERS = {"step_need_count_ins", "step_need_count_del", "step_need_count_upd",
                    "node_detached_step_need_count"}

FLAGCOL = {"_check_safe": "FSafe", "_check_after": "FAfter", "_check_ready": "FReady"}

# WHERE shapes of `UPDATE step SET <flag> = 1 WHERE ...` -> model target
TARGETS = [
    (r"node IN \((NEW|OLD)\.source, \1\.sink\)", ["TSource", "TSink"]),
    (r"node = (NEW|OLD)\.sink", ["TSink"]),
    (r"node = (NEW|OLD)\.source", ["TSource"]),
    (r"node = (NEW|OLD)\.node", ["TSelf"]),
    (r"node IN \(SELECT sink FROM dependency WHERE source = (NEW|OLD)\.(node|i)\)", ["TConsumersOfSelf"]),
    (r"node = \(SELECT sink FROM dependency WHERE i = (NEW|OLD)\.i\)", ["TSinkOfDep"]),
    (r"node IN \(SELECT source FROM dependency WHERE sink = (NEW|OLD)\.source\)", ["TProducersOfSource"]),
    # the same, narrowed: "... only when no other attached node still consumes the file"
    (r"node IN \(SELECT source FROM dependency WHERE sink = (NEW|OLD)\.source\) AND NOT EXISTS \(SELECT 1 FROM "
     r"dependency AS (\w+) JOIN node AS (\w+) ON \3\.i = \2\.sink WHERE \2\.source = \1\.source AND NOT \3\.detached\)",
     ["TProducersOfSourceUnlessShared"]),
]


def parse_triggers(schema: str):
    text = norm_sql(schema)
    found = {}
    for m in TRIGGER_RE.finditer(text):
        temp, name, event, table, when, body = m.groups()
        found[name] = dict(temp=bool(temp), event=event.strip(), table=table, when=when, body=body.strip())
    ntrig = len(re.findall(r"CREATE (?:TEMP )?TRIGGER", text))
    if ntrig != len(found):
        raise TranslatorError(f"STEP_SCHEMA: {ntrig} triggers declared, {len(found)} parsed")
    unknown = set(found) - set(FLAG_TRIGGERS) - COUNTER_TRIGGERS - set(OPTIONAL_TRIGGERS)
    if unknown:
        raise TranslatorError(f"STEP_SCHEMA: unknown trigger(s) {sorted(unknown)}")
    missing = set(FLAG_TRIGGERS) - set(found)
    if missing:
        raise TranslatorError(f"STEP_SCHEMA: trigger(s) removed {sorted(missing)}")
    for name, (event, table) in FLAG_TRIGGERS.items():
        t = found[name]
        if (t["event"], t["table"]) != (event, table) or t["temp"]:
            raise TranslatorError(f"trigger {name}: event/table changed to {t['event']} ON {t['table']}")
    for name, (event, table) in OPTIONAL_TRIGGERS.items():
        if name in found and ((found[name]["event"], found[name]["table"]) != (event, table) or found[name]["temp"]):
            raise TranslatorError(f"trigger {name}: event/table changed to {found[name]['event']} ON {found[name]['table']}")
    for name in COUNTER_TRIGGERS & set(found):
        body = found[name]["body"]
        if re.search(r"UPDATE step\b|INSERT INTO step\b|DELETE FROM step\b", body):
            raise TranslatorError(f"counter trigger {name} writes to the step table")
    return found


def flag_statements(name, body):
    """Parse `UPDATE step SET _check_x = 1 WHERE <target>;` statements."""
    out = []
    stmts = [s.strip() for s in body.split(";") if s.strip()]
    for s in stmts:
        m = re.fullmatch(r"UPDATE step SET (_check_\w+) = 1 WHERE (.*)", s)
        if not m or m.group(1) not in FLAGCOL:
            raise TranslatorError(f"trigger {name}: statement not recognised: {s!r}")
        for pat, tgts in TARGETS:
            if re.fullmatch(pat, m.group(2)):
                out += [(FLAGCOL[m.group(1)], t) for t in tgts]
                break
        else:
            raise TranslatorError(f"trigger {name}: WHERE shape not recognised: {m.group(2)!r}")
    return out


def single_set(name, body, column):
    """Body must be exactly `UPDATE step SET <column> = <v> WHERE node = NEW/OLD.node`; returns v."""
    m = re.fullmatch(rf"UPDATE step SET {column} = (\w+) WHERE node = (?:NEW|OLD)\.node;?", body.strip())
    if not m:
        raise TranslatorError(f"trigger {name}: body not recognised: {body!r}")
    v = m.group(1).upper()
    if v in ("FALSE", "0"):
        return 0
    if v in ("TRUE", "1"):
        return 1
    raise TranslatorError(f"trigger {name}: unexpected value {v}")


# ---------------------------------------------------------------------------------------------
# column maps for the three boolean fragments
# ---------------------------------------------------------------------------------------------


def _colmap(table):
    def col(t, n):
        key = (t, n)
        if key not in table:
            raise TranslatorError(f"unknown column {t}.{n}")
        return table[key]
    return col


ICOL = {("input_file", "state"): "IC_file_state", ("input_node", "detached"): "IC_node_detached",
        ("dynamic_dep", "i"): "IC_dyn_i"}
SCOL = {("step", "state"): "SC_state", ("step", "_safe"): "SC_safe", ("step", "_has_hash"): "SC_has_hash",
        ("step", "_safe_ignoring_hold"): "SC_safe_nh", ("step", "deferred"): "SC_deferred",
        ("step", "_implied_need"): "SC_ineed", ("step", "_ready"): "SC_ready"}
OCOL = {("onode", "detached"): "OC_node_detached", ("ofile", "state"): "OC_file_state"}
NCOL = {("NEW", "state"): "NC_new_state", ("NEW", "_holding"): "NC_new_holding",
        ("OLD", "state"): "NC_old_state", ("OLD", "detached"): "NC_old_detached",
        ("NEW", "detached"): "NC_new_detached"}


# ---------------------------------------------------------------------------------------------
# small AST facts
# ---------------------------------------------------------------------------------------------


def defer_comparator():
    fn = find_function(parse_module(f"{CORE}/step.py"), "mark_completed", "Step")
    for node in ast.walk(fn):
        if isinstance(node, ast.Compare) and isinstance(node.left, ast.Name) and node.left.id == "defer_count":
            if len(node.ops) != 1:
                break
            comp = node.comparators[0]
            if not (isinstance(comp, ast.Attribute) and comp.attr == "defer_cap"):
                break
            op = {ast.LtE: "CLe", ast.Lt: "CLt", ast.GtE: "CGe", ast.Gt: "CGt"}.get(type(node.ops[0]))
            if op is None:
                break
            return op
    raise TranslatorError("mark_completed: comparison `defer_count <op> self.graph.defer_cap` not found")


def lst(vals):
    return "[" + "; ".join(str(v) for v in vals) + "]"


# value of the `deferred` entry of executor_outcomes()["validate_unchanged"] when the source passes
# `step.has_unusable_dynamic_input()` instead of a literal
COMPUTED_DEFERRED = "unusable_dynamic_input"

UNUSABLE_DYNAMIC_INPUT_SQL = (
    "SELECT EXISTS ( SELECT 1 FROM dependency JOIN dynamic_dep ON dynamic_dep.i = dependency.i "
    "JOIN node ON node.i = dependency.source JOIN file ON file.node = dependency.source "
    "WHERE dependency.sink = ? AND ( node.detached OR file.state NOT IN ({confirmed}, {built}) ) )")
# the shared subquery (step.unusable_dynamic_input_sql(node_expr)) of the refined repair
UNUSABLE_DYNAMIC_INPUT_SUBQUERY = (
    "SELECT 1 FROM dependency AS dyn_dep JOIN dynamic_dep ON dynamic_dep.i = dyn_dep.i "
    "JOIN node AS dyn_node ON dyn_node.i = dyn_dep.source JOIN file AS dyn_file ON dyn_file.node = dyn_dep.source "
    "WHERE dyn_dep.sink = {sink} AND (dyn_node.detached OR dyn_file.state NOT IN ({confirmed}, {built}))")


def unusable_subquery(sink: str) -> str | None:
    """The normalised text of step.unusable_dynamic_input_sql(sink) when the repository has that function and it
    is the query the model re-expresses (Sched.unusable_dyn); None when the function does not exist."""
    import importlib
    enums = importlib.import_module("stepup.core.enums")
    step = importlib.import_module("stepup.core.step")
    fn = getattr(step, "unusable_dynamic_input_sql", None)
    if fn is None:
        return None
    probe = "@SINK@"
    got = norm_sql(fn(probe))
    exp = UNUSABLE_DYNAMIC_INPUT_SUBQUERY.format(sink=probe, confirmed=enums.FileState.CONFIRMED.value,
                                                 built=enums.FileState.BUILT.value)
    if got != exp:
        raise TranslatorError(f"step.unusable_dynamic_input_sql: query not recognised: {got!r}")
    return got.replace(probe, sink)


def check_unusable_dynamic_input():
    """Step.has_unusable_dynamic_input (the repair of D39), fail closed: one query, true iff a dynamic input
    edge of the step comes from a node that is detached or from a file that is not CONFIRMED / BUILT.
    Two shapes: the inline query (repo 84081f2) or `SELECT EXISTS (unusable_dynamic_input_sql('?'))` (the subquery
    shared with the trigger step_node_undefer_reattached).  Model: Sched.unusable_dyn (states = dyn_available_states)."""
    import importlib
    enums = importlib.import_module("stepup.core.enums")
    fn = find_function(parse_module(f"{CORE}/step.py"), "has_unusable_dynamic_input", "Step")
    body = [n for n in fn.body if not (isinstance(n, ast.Expr) and isinstance(n.value, ast.Constant))]
    if len(body) != 2 or not isinstance(body[0], ast.Assign) or \
            ast.unparse(body[1]) != "return bool(self.db.execute(sql, (self.i,)).fetchone()[0])":
        raise TranslatorError("Step.has_unusable_dynamic_input: unexpected statements")
    value = body[0].value
    if not isinstance(value, ast.JoinedStr):
        raise TranslatorError("Step.has_unusable_dynamic_input: the query is not an f-string")
    if ast.unparse(value) in ("f\"SELECT EXISTS ({unusable_dynamic_input_sql('?')})\"",
                              "f'SELECT EXISTS ({unusable_dynamic_input_sql(\'?\')})'",
                              'f"SELECT EXISTS ({unusable_dynamic_input_sql(\'?\')})"'):
        if unusable_subquery("?") is None:
            raise TranslatorError("Step.has_unusable_dynamic_input: unusable_dynamic_input_sql is missing")
        return
    parts = []
    for v in value.values:
        if isinstance(v, ast.Constant):
            parts.append(v.value)
        else:
            m = re.fullmatch(r"FileState\.(\w+)\.value", ast.unparse(v.value))
            if not m:
                raise TranslatorError("Step.has_unusable_dynamic_input: unexpected interpolation")
            parts.append(str(enums.FileState[m.group(1)].value))
    got = re.sub(r"\s+", " ", "".join(parts)).strip()
    exp = UNUSABLE_DYNAMIC_INPUT_SQL.format(confirmed=enums.FileState.CONFIRMED.value, built=enums.FileState.BUILT.value)
    if got != exp:
        raise TranslatorError(f"Step.has_unusable_dynamic_input: query not recognised: {got!r}")


def executor_outcomes() -> dict:
    """How a CHECKING job of the executor that does not complete the step puts it back (executor.py):
    `validate_dynamic_job` when the digest is unchanged (the statement after the last `return`), and
    `_reset_step_to_pending`.  Fail closed on any other shape."""
    rel = f"{CORE}/executor.py"
    mod = parse_module(rel)

    def set_state_args(call):
        if not (isinstance(call, ast.Call) and isinstance(call.func, ast.Attribute) and call.func.attr == "set_state"
                and isinstance(call.func.value, ast.Name) and call.func.value.id == "step"):
            return None
        if call.keywords or not 1 <= len(call.args) <= 2:
            raise TranslatorError("executor: unexpected arguments of step.set_state")
        st = call.args[0]
        if not (isinstance(st, ast.Attribute) and isinstance(st.value, ast.Name) and st.value.id == "StepState"):
            raise TranslatorError("executor: step.set_state with a computed state")
        deferred = False
        if len(call.args) == 2:
            if isinstance(call.args[1], ast.Constant) and isinstance(call.args[1].value, bool):
                deferred = call.args[1].value
            elif ast.unparse(call.args[1]) == "step.has_unusable_dynamic_input()":
                # the repair of D39: the flag is decided in the outcome transaction from the current tables
                check_unusable_dynamic_input()
                deferred = COMPUTED_DEFERRED
            else:
                raise TranslatorError("executor: step.set_state with a computed deferred flag")
        return st.attr, deferred

    def db_block_calls(fn, after_last_return):
        """The expression statements inside the `async with self.db:` blocks at the top level of fn."""
        body = fn.body
        if after_last_return:
            last = max(i for i, node in enumerate(body) if any(isinstance(x, ast.Return) for x in ast.walk(node)))
            body = body[last + 1:]
        calls = []
        for node in body:
            if isinstance(node, ast.AsyncWith):
                for stmt in node.body:
                    if not isinstance(stmt, ast.Expr):
                        raise TranslatorError(f"executor.{fn.name}: unexpected statement in the transaction")
                    if isinstance(stmt.value, ast.Constant):
                        continue
                    calls.append(stmt.value)
        return calls

    fn = find_function(mod, "validate_dynamic_job", "Executor")
    calls = db_block_calls(fn, True)
    if len(calls) != 1 or set_state_args(calls[0]) is None:
        raise TranslatorError("executor.validate_dynamic_job: the unchanged branch is not a single step.set_state")
    unchanged = set_state_args(calls[0])
    fn = find_function(mod, "_reset_step_to_pending", "Executor")
    calls = db_block_calls(fn, False)
    shape = []
    for c in calls:
        if set_state_args(c) is not None:
            shape.append(("set_state",) + set_state_args(c))
        elif isinstance(c, ast.Call) and isinstance(c.func, ast.Attribute) and isinstance(c.func.value, ast.Name) \
                and c.func.value.id == "step" and not c.args and not c.keywords:
            shape.append((c.func.attr,))
        else:
            raise TranslatorError("executor._reset_step_to_pending: unexpected statement")
    if shape != [("reset_for_rerun",), ("delete_hash",), ("set_state", "PENDING", False)]:
        raise TranslatorError(f"executor._reset_step_to_pending: unexpected shape {shape}")
    return {"validate_unchanged": unchanged}


# ---------------------------------------------------------------------------------------------
# main
# ---------------------------------------------------------------------------------------------


def generate():
    mods = _import_repo()
    E, ST, SC, FL, WF, FI = (mods[k] for k in ("enums", "step", "scheduler", "file", "workflow", "finalize"))
    SS, FS, ND = E.StepState, E.FileState, E.Need
    facts = {}

    check_pins()

    frag = {
        "UNAVAILABLE_INPUT_WHERE": norm_sql(_const(ST, "UNAVAILABLE_INPUT_WHERE")),
        "STEP_DISPATCH_WHERE": norm_sql(_const(ST, "STEP_DISPATCH_WHERE")),
        "REGULAR_OUTPUT_WHERE": norm_sql(_const(FL, "REGULAR_OUTPUT_WHERE")),
    }
    ui = sqlexpr.parse(frag["UNAVAILABLE_INPUT_WHERE"])
    dw = sqlexpr.parse(frag["STEP_DISPATCH_WHERE"])
    ro = sqlexpr.parse(frag["REGULAR_OUTPUT_WHERE"])
    facts["fragments"] = {"unavailable_input": ui, "dispatch_where": dw, "regular_output": ro}

    ru_text = norm_sql(_const(SC, "RESOURCE_UNAVAILABLE"))
    ru_atoms = parse_resource_unavailable(ru_text, SS.RUNNING.value)
    facts["resource_usage_where"] = ru_atoms
    dir_range, dir_ops = parse_dir_range(norm_sql(_const(SC, "UPDATE_CHECK_AFTER")))
    facts["after_dir_range"] = list(dir_ops)
    exp = expected_sql(E, frag, ru_text, dir_range)
    sn_atoms = parse_select_next_step(norm_sql(_const(SC, "SELECT_NEXT_STEP")), frag["STEP_DISPATCH_WHERE"], ru_text,
                                      ND.PLAN.value)
    facts["select_next_where"] = sn_atoms
    actual = {
        "APPLY_SAFE_UPDATE": _const(SC, "APPLY_SAFE_UPDATE"), "SEED_CHECK_AFTER": _const(SC, "SEED_CHECK_AFTER"),
        "UPDATE_CHECK_AFTER": _const(SC, "UPDATE_CHECK_AFTER"),
        "PROPAGATE_CHECK_AFTER": _const(SC, "PROPAGATE_CHECK_AFTER"),
        "RECOMPUTE_READY": _const(SC, "RECOMPUTE_READY"),
        "RECURSIVE_CHECK_WITH_PRODUCTS": _const(ST, "RECURSIVE_CHECK_WITH_PRODUCTS"),
        "RECONCILE_TARGET_DIRS": _const(WF, "RECONCILE_TARGET_DIRS"),
        "CREATE_OPTIONAL_STEP_TABLE": _const(FI, "CREATE_OPTIONAL_STEP_TABLE"),
        "CREATE_OPTIONAL_TO_BE_DELETED_TABLE": _const(FI, "CREATE_OPTIONAL_TO_BE_DELETED_TABLE"),
        "UPDATE_OPTIONAL_STEPS": _const(FI, "UPDATE_OPTIONAL_STEPS"),
        "SELECT_OPTIONAL_TO_BE_DELETED": _const(FI, "SELECT_OPTIONAL_TO_BE_DELETED"),
        "UPDATE_OPTIONAL_TO_BE_DELETED": _const(FI, "UPDATE_OPTIONAL_TO_BE_DELETED"),
    }
    for name, text in actual.items():
        if norm_sql(text) != exp[name]:
            raise TranslatorError(f"SQL constant {name} differs from the shape the model re-expresses")
    fill = norm_sql(_const(SC, "FILL_SAFE_UPDATE"))
    if fill == exp["FILL_SAFE_UPDATE:min"]:
        merge = "MergeMin"
    elif fill == exp["FILL_SAFE_UPDATE:deepest"]:
        merge = "MergeDeepest"
    else:
        raise TranslatorError("SQL constant FILL_SAFE_UPDATE differs from both shapes the model re-expresses")
    facts["safe_merge"] = merge
    cas = parse_check_after_sources(_const(ST, "RECURSIVE_CHECK_AFTER_SOURCES"))
    facts["check_after_sources_where"] = cas

    rparts = parse_reconcile_targets(E)
    first0 = first_round_value()
    facts["after_first_round"] = first0
    facts["reconcile_parts"] = list(rparts)
    trg = parse_triggers(_const(ST, "STEP_SCHEMA"))

    def when_of(name, required):
        w = trg[name]["when"]
        if (w is None) == required:
            raise TranslatorError(f"trigger {name}: WHEN clause {'missing' if required else 'unexpected'}")
        return None if w is None else sqlexpr.parse(w)

    flags = {}
    for name in ("step_dependency_check_after_ins", "step_dependency_check_after_del",
                 "step_file_check_ready_upd", "step_file_check_ready_ins", "step_node_check_ready_detached",
                 "step_flag_check_after_duration", "step_flag_check_safe",
                 "dynamic_dep_check_ready_ins", "dynamic_dep_check_ready_del"):
        flags[name] = flag_statements(name, trg[name]["body"])
    for name in ("step_dependency_check_after_ins", "step_dependency_check_after_del",
                 "step_file_check_ready_ins", "step_flag_check_after_duration", "step_flag_check_safe",
                 "dynamic_dep_check_ready_ins", "dynamic_dep_check_ready_del", "step_hash_ins", "step_hash_del"):
        when_of(name, False)
    # "only when the value really changes" guards
    for name, col in (("step_file_check_ready_upd", "state"), ("step_node_check_ready_detached", "detached")):
        w = when_of(name, True)
        if w != ("cmp", "ne", ("col", "OLD", col), ("col", "NEW", col)):
            raise TranslatorError(f"trigger {name}: WHEN is not OLD.{col} != NEW.{col}")
    w_hold = when_of("step_reset_holding", True)
    w_def = when_of("step_clear_deferred", True)
    w_cnt = when_of("step_reset_defer_count", True)
    if single_set("step_reset_holding", trg["step_reset_holding"]["body"], "_holding") != 0:
        raise TranslatorError("step_reset_holding does not reset to 0")
    if single_set("step_clear_deferred", trg["step_clear_deferred"]["body"], "deferred") != 0:
        raise TranslatorError("step_clear_deferred does not clear")
    if single_set("step_reset_defer_count", trg["step_reset_defer_count"]["body"], "defer_count") != 0:
        raise TranslatorError("step_reset_defer_count does not reset to 0")
    if single_set("step_hash_ins", trg["step_hash_ins"]["body"], "_has_hash") != 1:
        raise TranslatorError("step_hash_ins does not set _has_hash")
    if single_set("step_hash_del", trg["step_hash_del"]["body"], "_has_hash") != 0:
        raise TranslatorError("step_hash_del does not clear _has_hash")
    facts["triggers"] = flags
    undefer = "step_node_undefer_reattached" in trg
    undefer_strict = False
    if undefer:
        u = trg["step_node_undefer_reattached"]
        if u["when"] is None or sqlexpr.parse(u["when"]) != UNDEFER_WHEN:
            raise TranslatorError("trigger step_node_undefer_reattached: WHEN is not OLD.detached AND NOT NEW.detached")
        body = u["body"].strip()
        m = re.fullmatch(UNDEFER_BODY_REFINED, body)
        if m:
            # refined: only a step that has no unusable dynamic input left is woken
            sub = unusable_subquery("step.node")
            if sub is None or norm_sql(m.group(1)) != sub:
                raise TranslatorError(f"trigger step_node_undefer_reattached: guard not recognised: {m.group(1)!r}")
            undefer_strict = True
        elif not re.fullmatch(UNDEFER_BODY, body):
            raise TranslatorError(f"trigger step_node_undefer_reattached: body not recognised: {u['body']!r}")
    facts["undefer_on_reattach"] = undefer
    facts["undefer_strict"] = undefer_strict

    cmp_defer = defer_comparator()

    # ---- emit -------------------------------------------------------------------------------
    o = []
    o.append("(* GENERATED by translator/gen_sched.py from the repository -- do not edit *)")
    o.append("From Coq Require Import List NArith Bool.")
    o.append("From SV Require Import lib.Bytes lib.SqlExpr.")
    o.append("Import ListNotations.")
    o.append("Open Scope N_scope.")
    o.append("(* enums.py *)")
    for m in SS:
        o.append(f"Definition ST_{m.name} : N := {m.value}.")
    for m in FS:
        o.append(f"Definition FS_{m.name} : N := {m.value}.")
    for m in ND:
        o.append(f"Definition ND_{m.name} : N := {m.value}.")
    o.append(f"Definition need_min : N := {min(ND).value}.")
    o.append(f"Definition need_declarable : list N := {lst([ND.OPTIONAL.value, ND.DEFAULT.value, ND.PLAN.value])}.")
    o.append("(* column names of the three shared boolean fragments and of trigger WHEN clauses *)")
    o.append("Inductive icol := IC_file_state | IC_node_detached | IC_dyn_i.")
    o.append("Inductive scol := SC_state | SC_safe | SC_has_hash | SC_safe_nh | SC_deferred | SC_ineed | SC_ready.")
    o.append("Inductive ocol := OC_node_detached | OC_file_state.")
    o.append("Inductive ncol := NC_new_state | NC_new_holding | NC_old_state | NC_old_detached | NC_new_detached.")
    o.append(f"(* step.UNAVAILABLE_INPUT_WHERE = {frag['UNAVAILABLE_INPUT_WHERE']} *)")
    o.append(f"Definition gen_unavailable_input : sexpr icol :=\n  {sqlexpr.to_coq(ui, _colmap(ICOL))}.")
    o.append(f"(* step.STEP_DISPATCH_WHERE = {frag['STEP_DISPATCH_WHERE']} *)")
    o.append(f"Definition gen_dispatch_where : sexpr scol :=\n  {sqlexpr.to_coq(dw, _colmap(SCOL))}.")
    o.append(f"(* file.REGULAR_OUTPUT_WHERE = {frag['REGULAR_OUTPUT_WHERE']} *)")
    o.append(f"Definition gen_regular_output : sexpr ocol :=\n  {sqlexpr.to_coq(ro, _colmap(OCOL))}.")
    o.append("(* scheduler.FILL_SAFE_UPDATE: ancestor states that keep a chain safe; how duplicate rows merge *)")
    o.append(f"Definition safe_ok_states : list N := {lst([SS.RUNNING.value, SS.SUCCEEDED.value])}.")
    o.append("Inductive merge_policy := MergeMin | MergeDeepest.")
    o.append(f"Definition safe_merge : merge_policy := {merge}.")
    o.append("(* scheduler.UPDATE_CHECK_AFTER *)")
    o.append(f"Definition after_elev_target : N := {ND.TARGET.value}.")
    o.append(f"Definition after_dir_guard_need : N := {ND.DEFAULT.value}.")
    o.append(f"Definition after_elev_none : N := {ND.OPTIONAL.value}.")
    o.append("(* Scheduler._update_meta_after: the value of `first` in the first iteration of the loop *)")
    o.append(f"Definition after_first_round : bool := {'true' if first0 else 'false'}.")
    o.append(f"Definition after_sink_default : N := {ND.OPTIONAL.value}.")
    o.append("(* the label range of a directory target: label <op> target_dir.path AND label <op> target_dir.upper *)")
    o.append(f"Definition after_dir_lower : cmpop := {dir_ops[0]}.")
    o.append(f"Definition after_dir_upper : cmpop := {dir_ops[1]}.")
    o.append("(* scheduler.SELECT_NEXT_STEP / RESOURCE_UNAVAILABLE / _get_next_step *)")
    o.append(f"Definition resource_running_state : N := {SS.RUNNING.value}.")
    o.append("(* scheduler.RESOURCE_UNAVAILABLE: which steps' units are subtracted from the available ones *)")
    o.append("(* scheduler.SELECT_NEXT_STEP: the conjuncts of its WHERE clause *)")
    o.append("Inductive sn_atom := SnDispatchWhere | SnAboveThreshold | SnAttached | SnHashOrResources.")
    o.append(f"Definition sn_where : list sn_atom := {lst(sn_atoms)}.")
    o.append("Inductive ru_atom := RuRunning | RuAttached.")
    o.append(f"Definition ru_where : list ru_atom := {lst(ru_atoms)}.")
    o.append(f"Definition dispatch_state_with_hash : N := {SS.CHECKING.value}.")
    o.append(f"Definition dispatch_state_without_hash : N := {SS.RUNNING.value}.")
    o.append(f"Definition threshold_without_targets : N := {ND.OPTIONAL.value}.")
    o.append(f"Definition threshold_with_targets : N := {ND.DEFAULT.value}.")
    o.append("(* STEP_SCHEMA triggers: which flag is raised on which step *)")
    o.append("Inductive flagcol := FSafe | FAfter | FReady.")
    o.append("Inductive ttarget := TSelf | TSource | TSink | TConsumersOfSelf | TSinkOfDep | TProducersOfSource "
             "| TProducersOfSourceUnlessShared.")
    names = {"step_dependency_check_after_ins": "trg_dep_ins", "step_dependency_check_after_del": "trg_dep_del",
             "step_file_check_ready_upd": "trg_file_state_upd", "step_file_check_ready_ins": "trg_file_ins",
             "step_node_check_ready_detached": "trg_node_detached", "step_flag_check_after_duration": "trg_duration",
             "step_flag_check_safe": "trg_step_state", "dynamic_dep_check_ready_ins": "trg_dyn_ins",
             "dynamic_dep_check_ready_del": "trg_dyn_del"}
    for tname, cname in names.items():
        items = "; ".join(f"({a}, {b})" for a, b in flags[tname])
        o.append(f"Definition {cname} : list (flagcol * ttarget) := [{items}].  (* {tname} *)")
    o.append("(* step.RECURSIVE_CHECK_AFTER_SOURCES (Step.detach): the conjuncts that select the source nodes two hops "
             "upstream of the detached step subtree *)")
    o.append("Inductive cas_atom := CasSrcIsStep | CasSrcAttached | CasNoOtherAttachedConsumer | CasNoOtherConsumer.")
    o.append(f"Definition cas_where : list cas_atom := {lst(cas)}.")
    o.append("(* file-state and node-detached triggers fire only when the value really changes *)")
    o.append("Definition trg_file_state_upd_on_change_only : bool := true.")
    o.append("Definition trg_node_detached_on_change_only : bool := true.")
    o.append("(* step_node_undefer_reattached (optional): a node whose detached flag goes 1 -> 0 clears `deferred` "
             "of its consumers *)")
    o.append(f"Definition trg_undefer_on_reattach : bool := {'true' if undefer else 'false'}.")
    o.append("(* ... refined (D39-refine): only of the consumers that have no unusable dynamic input left *)")
    o.append(f"Definition trg_undefer_strict : bool := {'true' if undefer_strict else 'false'}.")
    o.append(f"Definition trg_reset_holding_when : sexpr ncol := {sqlexpr.to_coq(w_hold, _colmap(NCOL))}.")
    o.append(f"Definition trg_clear_deferred_when : sexpr ncol := {sqlexpr.to_coq(w_def, _colmap(NCOL))}.")
    o.append(f"Definition trg_reset_defer_count_when : sexpr ncol := {sqlexpr.to_coq(w_cnt, _colmap(NCOL))}.")
    o.append("(* Step.initialize_row (pinned): the row a new or partially recycled step starts with *)")
    o.append(f"Definition init_state : N := {SS.PENDING.value}.")
    o.append("(* Step.mark_completed: `defer_count <op> defer_cap` keeps the step PENDING *)")
    o.append(f"Definition defer_within_cap : cmpop := {cmp_defer}.")
    o.append(f"Definition defer_state_within : N := {SS.PENDING.value}.")
    o.append(f"Definition defer_state_beyond : N := {SS.FAILED.value}.")
    o.append(f"Definition fail_state : N := {SS.FAILED.value}.")
    o.append(f"Definition success_state : N := {SS.SUCCEEDED.value}.")
    o.append(f"Definition dyn_available_states : list N := {lst([FS.CONFIRMED.value, FS.BUILT.value])}.")
    o.append("(* workflow.reconcile_targets: (flags stale TARGET elevations, flags the creators of exact targets, "
             "flags the producers under directory targets); enums.TARGET_FORBIDDEN_STATES; FILE_STATES_BY_ROLE[STATIC] *)")
    o.append(f"Definition reconcile_parts : bool * bool * bool := ({str(rparts[0]).lower()}, {str(rparts[1]).lower()}, {str(rparts[2]).lower()}).")
    o.append(f"Definition reconcile_stale_need : N := {ND.TARGET.value}.")
    o.append(f"Definition target_forbidden_states : list N := {lst(sorted(x.value for x in E.TARGET_FORBIDDEN_STATES))}.")
    o.append(f"Definition static_file_states : list N := {lst(sorted(x.value for x in E.FILE_STATES_BY_ROLE[E.FileRole.STATIC]))}.")
    o.append("(* finalize.revert_optional_steps *)")
    o.append(f"Definition revert_need : N := {ND.OPTIONAL.value}.")
    o.append(f"Definition revert_step_state : N := {SS.PENDING.value}.")
    o.append(f"Definition revert_queue_states : list N := {lst([FS.VOLATILE.value, FS.BUILT.value, FS.OUTDATED.value])}.")
    o.append(f"Definition revert_keep_state : N := {FS.VOLATILE.value}.")
    o.append(f"Definition revert_file_state : N := {FS.PLANNED.value}.")
    outc = executor_outcomes()
    vst, vdf = outc["validate_unchanged"]
    o.append("(* executor.validate_dynamic_job, digest unchanged: step.set_state(state, deferred);")
    o.append("   executor._reset_step_to_pending (shape checked): reset_for_rerun, delete_hash, set_state(PENDING) *)")
    computed = vdf == COMPUTED_DEFERRED
    o.append(f"Definition validate_unchanged_state : N := {SS[vst].value}.")
    o.append("(* the literal flag; when the source passes step.has_unusable_dynamic_input() (computed in the outcome")
    o.append("   transaction: detached or not in dyn_available_states; the repair of D39): the value the call has while")
    o.append("   an input is unusable *)")
    o.append(f"Definition validate_unchanged_deferred : bool := {'true' if vdf else 'false'}.")
    o.append(f"Definition validate_unchanged_computed : bool := {'true' if computed else 'false'}.")
    facts["validate_unchanged"] = {"state": SS[vst].value, "deferred": bool(vdf), "computed": computed}
    o.append("(* tui._normalize_targets (pinned): a raw target is a directory target iff it ends in os.sep *)")
    o.append("Definition target_dir_marker : N := 47.")
    text = "\n".join(o) + "\n"
    facts["enums"] = {"StepState": {m.name: m.value for m in SS}, "FileState": {m.name: m.value for m in FS},
                      "Need": {m.name: m.value for m in ND}}
    facts["defer_cmp"] = cmp_defer
    return text, facts


if __name__ == "__main__":
    if len(sys.argv) > 1 and sys.argv[1] == "--print-pins":
        pins = current_pins()
        print('"""Normalised sources of the functions whose control flow model/Sched.v mirrors.')
        print("Regenerate with: PYTHONPATH=/repo:/verif python -m translator.gen_sched --print-pins")
        print('(only after re-reading the changed function and updating the model)."""')
        print("PINS = {")
        for k in sorted(pins):
            print(f"    {k!r}: (")
            for line in pins[k].splitlines():
                print(f"        {line + chr(10)!r}")
            print("    ),")
        print("}")
    else:
        t, _ = generate()
        print(t)
