"""Translator for C18: prefix_clause, dir_range_upper, LIKE case sensitivity, call sites."""

from __future__ import annotations

import ast
import re

from .astutil import (TranslatorError, body_without_docstring, coq_str, find_function,
                      functions_with_parents, joined_text, parse_module, REPO)

CORE = "stepup/core"

# String constants containing LIKE / GLOB that are *not* prefix selections; anything else that
# mentions LIKE/GLOB/substr must be one of the recognised idioms or the translator fails closed.
BENIGN = [
    re.compile(r"label LIKE '%/'"),                     # "is a directory label" suffix test
    re.compile(r"name NOT LIKE 'sqlite_%'"),            # schema wipe
]


def translate_prefix_clause():
    tree = parse_module(f"{CORE}/sqlite3.py")
    fn = find_function(tree, "prefix_clause")
    args = [a.arg for a in fn.args.args]
    if args != ["column", "prefix"]:
        raise TranslatorError(f"prefix_clause signature changed: {args}")
    body = body_without_docstring(fn)
    if len(body) != 2 or not isinstance(body[0], ast.Assign) or not isinstance(body[1], ast.Return):
        raise TranslatorError("prefix_clause body is not `escaped = ...; return ...`")
    tgt = body[0].targets[0]
    if not isinstance(tgt, ast.Name):
        raise TranslatorError("prefix_clause: unexpected assignment target")
    var = tgt.id
    chain = []
    e = body[0].value
    while isinstance(e, ast.Call):
        if not (isinstance(e.func, ast.Attribute) and e.func.attr == "replace" and len(e.args) == 2
                and all(isinstance(a, ast.Constant) and isinstance(a.value, str) for a in e.args)
                and not e.keywords):
            raise TranslatorError("prefix_clause: escape chain is not a chain of str.replace(const, const)")
        old, new = e.args[0].value, e.args[1].value
        if len(old) != 1:
            raise TranslatorError("prefix_clause: replace() of a multi-character string")
        chain.append((old, new))
        e = e.func.value
    if not (isinstance(e, ast.Name) and e.id == "prefix"):
        raise TranslatorError("prefix_clause: escape chain does not start from `prefix`")
    chain.reverse()
    ret = body[1].value
    if not (isinstance(ret, ast.Tuple) and len(ret.elts) == 2):
        raise TranslatorError("prefix_clause: return is not a pair")
    clause, pattern = ret.elts
    ctext = joined_text(clause)
    m = re.fullmatch(r"\{\} LIKE \? ESCAPE '(.)'", ctext)
    if not m:
        raise TranslatorError(f"prefix_clause: clause text not recognised: {ctext!r}")
    esc = m.group(1)
    if not (isinstance(pattern, ast.JoinedStr) and len(pattern.values) == 2
            and isinstance(pattern.values[0], ast.FormattedValue)
            and isinstance(pattern.values[0].value, ast.Name) and pattern.values[0].value.id == var
            and isinstance(pattern.values[1], ast.Constant)):
        raise TranslatorError("prefix_clause: pattern is not f\"{escaped}<suffix>\"")
    suffix = pattern.values[1].value
    return chain, esc, suffix


def _concat_pieces(e):
    """Flatten a str concatenation: BinOp(+) and JoinedStr -> [("const", text) | ("expr", node)]."""
    if isinstance(e, ast.BinOp) and isinstance(e.op, ast.Add):
        return _concat_pieces(e.left) + _concat_pieces(e.right)
    if isinstance(e, ast.Constant) and isinstance(e.value, str):
        return [("const", e.value)]
    if isinstance(e, ast.JoinedStr):
        out = []
        for v in e.values:
            if isinstance(v, ast.Constant) and isinstance(v.value, str):
                out.append(("const", v.value))
            elif isinstance(v, ast.FormattedValue):
                if v.conversion != -1 or v.format_spec is not None:
                    raise TranslatorError("dir_range_upper: f-string field with a conversion or a format spec")
                out += _concat_pieces(v.value)
            else:
                raise TranslatorError("dir_range_upper: unexpected f-string part")
        return out
    return [("expr", e)]


def translate_dir_range_upper():
    tree = parse_module(f"{CORE}/path.py")
    fn = find_function(tree, "dir_range_upper")
    body = body_without_docstring(fn)
    if len(body) != 2 or not isinstance(body[0], ast.If) or not isinstance(body[1], ast.Return):
        raise TranslatorError("dir_range_upper: body shape changed")
    test = body[0].test
    ok = (isinstance(test, ast.UnaryOp) and isinstance(test.op, ast.Not)
          and isinstance(test.operand, ast.Call) and isinstance(test.operand.func, ast.Attribute)
          and test.operand.func.attr == "endswith" and isinstance(test.operand.func.value, ast.Name)
          and test.operand.func.value.id == "parent" and len(test.operand.args) == 1
          and isinstance(test.operand.args[0], ast.Constant)
          and len(body[0].body) == 1 and isinstance(body[0].body[0], ast.Raise) and not body[0].orelse)
    if not ok:
        raise TranslatorError("dir_range_upper: guard is not `if not parent.endswith(c): raise`")
    guard = test.operand.args[0].value
    # The result is a concatenation of pieces.  `a + b`, an f-string f"{a}b" (no conversion, no format
    # spec: str.__format__ with an empty spec is the identity on str) and nestings of the two denote the
    # same string, so they are flattened into one list of pieces before the shape is read.
    pieces = _concat_pieces(body[1].value)
    merged = []
    for kind, val in pieces:
        if kind == "const" and merged and merged[-1][0] == "const":
            merged[-1] = ("const", merged[-1][1] + val)
        elif not (kind == "const" and val == ""):
            merged.append((kind, val))
    if len(merged) != 2 or merged[0][0] != "expr" or merged[1][0] != "const":
        raise TranslatorError("dir_range_upper: result is not the concatenation `parent[:-k]` then a constant")
    sl = merged[0][1]
    ok = (isinstance(sl, ast.Subscript) and isinstance(sl.value, ast.Name) and sl.value.id == "parent"
          and isinstance(sl.slice, ast.Slice) and sl.slice.step is None
          and (sl.slice.lower is None or (isinstance(sl.slice.lower, ast.Constant) and sl.slice.lower.value == 0))
          and isinstance(sl.slice.upper, ast.UnaryOp) and isinstance(sl.slice.upper.op, ast.USub)
          and isinstance(sl.slice.upper.operand, ast.Constant))
    if not ok:
        raise TranslatorError("dir_range_upper: result is not the concatenation `parent[:-k]` then a constant")
    cut = sl.slice.upper.operand.value
    last = merged[1][1]
    if not isinstance(cut, int) or not isinstance(last, str) or not isinstance(guard, str):
        raise TranslatorError("dir_range_upper: unexpected constants")
    return guard, cut, last


def measure_like_case_sensitivity():
    """Observe the LIKE behaviour of connections opened the way StepUp opens them."""
    import tempfile, os
    from stepup.core.sqlite3 import connect
    res = {}
    con = connect(":memory:")
    res["rw"] = con.execute("SELECT 'a' LIKE 'A'").fetchone()[0] == 0
    con.close()
    with tempfile.TemporaryDirectory(prefix="verif-c18-") as d:
        p = os.path.join(d, "x.db")
        con = connect(p)
        con.execute("CREATE TABLE t(x)")
        con.close()
        con = connect(p, read_only=True)
        res["ro"] = con.execute("SELECT 'a' LIKE 'A'").fetchone()[0] == 0
        con.close()
    return res


def scan_sites():
    """Find every place in stepup/core that selects labels by a directory prefix."""
    sites = []
    for path in sorted((REPO / CORE).glob("*.py")):
        rel = f"{CORE}/{path.name}"
        if path.name in ("browse.py",):
            continue  # read-only viewer: user-typed GLOB filter, not a directory selection
        tree = parse_module(rel)
        fn_nodes = list(functions_with_parents(tree))
        covered = set()
        for qual, fn in fn_nodes:
            if path.name == "sqlite3.py" and qual == "prefix_clause":
                continue
            if path.name == "path.py" and qual == "dir_range_upper":
                continue
            # only direct statements of this function (nested functions are visited themselves)
            calls = [n for n in ast.walk(fn) if isinstance(n, ast.Call)]
            names = {c.func.id for c in calls if isinstance(c.func, ast.Name)}
            inner = {q for q, f2 in fn_nodes if q.startswith(qual + ".")}
            if "prefix_clause" in names and not any(
                    "prefix_clause" in {c.func.id for c in ast.walk(f2) if isinstance(c, ast.Call) and isinstance(c.func, ast.Name)}
                    for q, f2 in fn_nodes if q in inner):
                sites.append((f"{path.name}:{qual}", "ILike"))
            if "dir_range_upper" in names:
                # the lower bound must be the very expression passed to dir_range_upper
                for c in calls:
                    if isinstance(c.func, ast.Name) and c.func.id == "dir_range_upper":
                        if len(c.args) != 1:
                            raise TranslatorError(f"{rel}:{qual}: dir_range_upper arity")
                        arg = ast.dump(c.args[0])
                        tup = [n for n in ast.walk(fn) if isinstance(n, ast.Tuple) and len(n.elts) == 2
                               and n.elts[1] is c]
                        if not tup or ast.dump(tup[0].elts[0]) != arg:
                            raise TranslatorError(f"{rel}:{qual}: range bounds are not (x, dir_range_upper(x))")
                sites.append((f"{path.name}:{qual}", "IRange"))
        # string constants anywhere in the module
        for node in ast.walk(tree):
            if isinstance(node, ast.Constant) and isinstance(node.value, str):
                txt = node.value
                if "substr(" in txt:
                    if not re.search(r"label = substr\(\?, 1, length\(label\)\)", txt):
                        raise TranslatorError(f"{rel}: unrecognised substr idiom: {txt[:80]!r}")
                    owner = [q for q, f2 in fn_nodes if any(n2 is node for n2 in ast.walk(f2))]
                    owner = max(owner, key=len) if owner else "module"
                    sites.append((f"{path.name}:{owner}", "ISubstr"))
                if re.search(r"\bLIKE\b|\bGLOB\b", txt) and not txt.lstrip().startswith(("Build a LIKE", "`prefix_clause")):
                    if len(txt) > 400 or "\n\n" in txt:  # docstrings / prose
                        continue
                    if any(b.search(txt) for b in BENIGN):
                        continue
                    if path.name == "sqlite3.py" and "LIKE ? ESCAPE" in txt:
                        continue  # prefix_clause itself (translated above)
                    if re.search(r"\b(LIKE|GLOB)\b", txt) and re.search(r"[=<>?']", txt):
                        raise TranslatorError(f"{rel}:{node.lineno}: unrecognised LIKE/GLOB use: {txt[:80]!r}")
    # The range SQL texts: a comparison of a label column with a bound must have the half-open
    # shape `label >= lo AND label < hi`; BETWEEN, `<=`, `>` on labels are not prefix selections.
    nrange = 0
    for path in sorted((REPO / CORE).glob("*.py")):
        if path.name in ("browse.py",):
            continue
        rel = f"{CORE}/{path.name}"
        tree = parse_module(rel)
        for node in ast.walk(tree):
            if not (isinstance(node, ast.Constant) and isinstance(node.value, str)):
                continue
            txt = node.value
            if len(txt) > 3000 and "\n\n" in txt and "SELECT" not in txt.upper():
                continue
            sql_lines = "\n".join(l for l in txt.splitlines() if not l.strip().startswith("--"))
            if not re.search(r"\blabel\b", sql_lines):
                continue
            if re.search(r"\blabel\s+(NOT\s+)?BETWEEN\b", sql_lines, re.I) or \
               re.search(r"\blabel\s*(<=|>)(?!=)", sql_lines):
                raise TranslatorError(f"{rel}:{node.lineno}: label compared with BETWEEN / <= / >: not a half-open prefix range")
            for m in re.finditer(r"((?:\w+\.)?label)\s*>=\s*(\S+)", sql_lines):
                tail = sql_lines[m.end():m.end() + 120]
                if not re.match(r"\s*(?:\n\s*)?AND\s+" + re.escape(m.group(1)) + r"\s*<\s*(?!=)\S+", tail):
                    raise TranslatorError(f"{rel}:{node.lineno}: `label >= lo` without the matching `AND label < hi`")
                nrange += 1
            for m in re.finditer(r"((?:\w+\.)?label)\s*<\s*(?!=)\S+", sql_lines):
                head = sql_lines[max(0, m.start() - 120):m.start()]
                if not re.search(re.escape(m.group(1)) + r"\s*>=\s*\S+\s*(?:\n\s*)?AND\s*$", head):
                    raise TranslatorError(f"{rel}:{node.lineno}: `label < hi` without the matching `label >= lo AND`")
    if nrange < 3:
        raise TranslatorError(f"expected at least 3 half-open label ranges in SQL texts, found {nrange}")
    _scan_label_string_functions()
    # every function the property names must still select by one of the recognised idioms: a site that
    # silently disappears (its idiom rewritten into something the scans above do not look for) fails closed
    have = {name.split(":", 1)[1].split(".")[-1] for name, _ in sites}
    missing = sorted(set(REQUIRED_SITE_FUNCS) - have)
    if missing:
        raise TranslatorError(f"no recognised prefix idiom left in: {missing}")
    return sites


REQUIRED_SITE_FUNCS = ["_find_owning_static_tree", "register_static_tree", "relevant_paths_under",
                       "has_regular_output_under", "_is_justified_without_node", "search_matching_paths", "initialize"]

# SQL string functions / operators that can express "starts with" or "contains" on a label
_STRING_FUNCS = re.compile(r"\b(instr|ltrim|rtrim|trim|replace|substring|unicode|hex|printf|format|regexp|match|like|glob)\s*\(", re.I)


def _scan_label_string_functions():
    """Any SQL text in stepup/core that applies a string function other than the recognised substr idiom to a
    label (instr, trim family, replace, `||` concatenation, function-call forms of LIKE/GLOB, REGEXP/MATCH)
    is a selection on paths this translator does not understand: fail closed."""
    for path in sorted((REPO / CORE).glob("*.py")):
        if path.name in ("browse.py",):
            continue
        rel = f"{CORE}/{path.name}"
        tree = parse_module(rel)
        for node in ast.walk(tree):
            if not (isinstance(node, ast.Constant) and isinstance(node.value, str)):
                continue
            txt = node.value
            if not re.search(r"\blabel\b", txt) or not re.search(r"\b(SELECT|WHERE|AND|JOIN|UPDATE|DELETE)\b", txt):
                continue
            if len(txt) > 400 and "\n\n" in txt and "SELECT" not in txt:
                continue  # prose
            sql = "\n".join(l.split("--", 1)[0] for l in txt.splitlines())
            m = _STRING_FUNCS.search(sql)
            if m:
                raise TranslatorError(f"{rel}:{node.lineno}: SQL string function {m.group(1)}() next to a label: "
                                      f"{' '.join(sql.split())[:90]!r}")
            if re.search(r"\blabel\s*\|\||\|\|\s*(\w+\.)?label\b", sql):
                raise TranslatorError(f"{rel}:{node.lineno}: label concatenated in SQL: {' '.join(sql.split())[:90]!r}")
            if re.search(r"\b(REGEXP|MATCH)\b", sql):
                raise TranslatorError(f"{rel}:{node.lineno}: REGEXP/MATCH on a label")


# Python-level prefix tests on stored labels (str.startswith).  Modules that handle stored labels are
# scanned for EVERY `.startswith(` call; each must be a recognised directory selection (with the
# statement that guarantees the trailing separator of the directory argument) or on the benign list.
PY_MODULES = ["workflow.py", "scheduler.py", "clean.py", "watcher.py", "trellis.py", "file.py", "finalize.py",
              "step.py", "builder.py", "pending.py", "startup.py"]
# (module, function, call text) -> text that must occur in the function before the call (None = the
# directory argument comes from a list of static-tree labels, which end in a separator by construction)
PY_PREFIX_SITES = {
    ("workflow.py", "Workflow._is_justified_without_node", "path.startswith(label)"): None,
    ("workflow.py", "Workflow._is_justified_without_node", "label.startswith(path)"):
        "if not path.endswith(os.sep):\n    return False",
    ("workflow.py", "Workflow.relevant_paths_under", "path.startswith(directory)"):
        "if not directory.endswith(os.sep):\n    directory += os.sep",
}
PY_BENIGN = [
    r"path\.startswith\(STEPUP_DIR \+ os\.sep\)",   # the .stepup/ directory itself, with separator
    r"\.startswith\(\('?\"?[-+*<._$\[]",             # option / marker characters
    r"\.startswith\('[^/']*'\)", r'\.startswith\("[^/"]*"\)',   # literal without a separator
]


def scan_py_prefix_sites():
    sites, seen = [], set()
    for name in PY_MODULES:
        path = REPO / CORE / name
        if not path.exists():
            continue
        tree = parse_module(f"{CORE}/{name}")
        fns = list(functions_with_parents(tree))
        for node in ast.walk(tree):
            if not (isinstance(node, ast.Call) and isinstance(node.func, ast.Attribute)
                    and node.func.attr in ("startswith", "is_relative_to", "removeprefix")):
                continue
            txt = ast.unparse(node)
            owner = [q for q, f2 in fns if any(n2 is node for n2 in ast.walk(f2))]
            owner = max(owner, key=len) if owner else "module"
            key = (name, owner, txt)
            if key in PY_PREFIX_SITES:
                guard = PY_PREFIX_SITES[key]
                if guard is not None:
                    fn = dict(fns)[owner]
                    before = "\n".join(ast.unparse(st) for st in ast.walk(fn)
                                       if isinstance(st, ast.If) and st.lineno < node.lineno)
                    if guard not in before:
                        raise TranslatorError(f"{CORE}/{name}:{owner}: `{txt}` without the separator guard `{guard}`")
                seen.add(key)
                sites.append((f"{name}:{owner.split('.')[-1]}[{txt}]", "IPyPrefix"))
                continue
            if any(re.search(b, txt) for b in PY_BENIGN):
                continue
            raise TranslatorError(f"{CORE}/{name}:{node.lineno} ({owner}): unrecognised prefix test on a path: {txt}")
    missing = sorted(set(PY_PREFIX_SITES) - seen)
    if missing:
        raise TranslatorError(f"expected Python prefix sites not found: {missing}")
    return sites


def generate():
    chain, esc, suffix = translate_prefix_clause()
    guard, cut, last = translate_dir_range_upper()
    cs = measure_like_case_sensitivity()
    sites = scan_sites() + scan_py_prefix_sites()
    lines = [
        "(* GENERATED by translator/gen_prefix.py from /repo -- do not edit *)",
        "From Coq Require Import List NArith.",
        "From SV Require Import lib.Bytes.",
        "Import ListNotations.",
        "Open Scope N_scope.",
        "(* prefix_clause: escaped = prefix" + "".join(f".replace({o!r},{n!r})" for o, n in chain) + " *)",
        "Definition esc_chain : list (N * str) := ["
        + "; ".join(f"({ord(o)}, {coq_str(n)})" for o, n in chain) + "].",
        f"Definition like_esc : N := {ord(esc)}.",
        f"Definition like_suffix : str := {coq_str(suffix)}.",
        f"(* observed on connections opened by stepup.core.sqlite3.connect: {cs} *)",
        f"Definition like_case_sensitive : bool := {'true' if all(cs.values()) else 'false'}.",
        "(* dir_range_upper: guard parent.endswith(g), result parent[:-cut] + last *)",
        f"Definition range_guard : str := {coq_str(guard)}.",
        f"Definition range_cut : nat := {cut}.",
        f"Definition range_last : str := {coq_str(last)}.",
        "Inductive idiom := ILike | ISubstr | IRange | IPyPrefix.",
        "Definition sites : list (str * idiom) := [",
        ";\n".join(f"  ({coq_str(n)}, {i}) (* {n} *)" for n, i in sites),
        "].",
        "",
    ]
    return "\n".join(lines), {"chain": chain, "esc": esc, "suffix": suffix, "guard": guard, "cut": cut,
                              "last": last, "like_case_sensitive": cs, "sites": sites}
