"""C19: the SQL statements of pending.py that build the end-of-build report -> model data.

Each statement is split into a *skeleton* (INSERT target, projected columns, FROM/JOIN clauses,
the frame of the window query) that is compared token for token with the catalogue below (fail
closed), and its *boolean parts* (WHERE clauses, the `unsafe` expression, the live-producer test of
the dead-file statement), which are translated by translator/sqlexpr.py into `sexpr` terms of
coq/lib/SqlExpr.v over the column types of coq/model/PendingTypes.v.  The model evaluates these
terms (coq/model/Pending.v), so a changed WHERE clause changes the model, and the theorems of
props/C19.v that say what the clauses must mean (PendingSound.v) then hold or fail in Coq.

Sub-selects that the expression grammar does not have are rewritten first, each to one column:

    X IN (SELECT i FROM pend_step)                       -> inU.<X>      (X must be the dst or src
    X NOT IN (SELECT i FROM pend_step)                   -> NOT inU.<X>   column of the relation)
    EXISTS (SELECT 1 FROM step WHERE step.node = X AND C) -> (srcstep.node IS NOT NULL AND C')
         (step.node is a primary key: at most one row; C' is C with `step.` -> `srcstep.`)
    EXISTS (SELECT 1 FROM pend_file_block WHERE pend_file_block.dst_step = pend_step.i)
                                                         -> pseudo.has_file_block
    i [NOT] IN (SELECT dst_step FROM pend_attributed)    -> [NOT] pseudo.attributed
    ?                                                    -> param.p  (exactly one per statement)

Anything else (another sub-select, a function call, a string comparison, arithmetic) makes
sqlexpr.parse raise: fail closed.
"""

from __future__ import annotations

import ast
import importlib
import re

from . import sqlexpr
from .astutil import TranslatorError, body_without_docstring, find_function, parse_module, REPO

CORE = "stepup/core"


def norm(sql: str) -> str:
    s = re.sub(r"\s+", " ", sqlexpr.strip_comments(sql)).strip()
    s = re.sub(r"\(\s+", "(", s)
    s = re.sub(r"\s+\)", ")", s)
    return s


def _pending():
    mod = importlib.import_module("stepup.core.pending")
    path = getattr(mod, "__file__", "") or ""
    if not path.startswith(str(REPO)):
        raise TranslatorError(f"stepup.core.pending imported from {path}, not from {REPO}")
    return mod


# ---------------------------------------------------------------------------------------------
# Splitting at paren depth 0
# ---------------------------------------------------------------------------------------------


def split_top(text: str, sep: str) -> list[str]:
    """Split on the keyword `sep` (surrounded by blanks) outside parentheses and quotes."""
    out, depth, start, i, n = [], 0, 0, 0, len(text)
    pat = " " + sep + " "
    while i < n:
        c = text[i]
        if c == "'":
            j = text.find("'", i + 1)
            if j < 0:
                raise TranslatorError("pending SQL: unterminated string literal")
            i = j + 1
            continue
        if c == "(":
            depth += 1
        elif c == ")":
            depth -= 1
            if depth < 0:
                raise TranslatorError("pending SQL: unbalanced parentheses")
        elif depth == 0 and text.startswith(pat, i):
            out.append(text[start:i])
            i += len(pat)
            start = i
            continue
        i += 1
    if depth != 0:
        raise TranslatorError("pending SQL: unbalanced parentheses")
    out.append(text[start:])
    return [x.strip() for x in out]


def split_commas(text: str) -> list[str]:
    out, depth, start = [], 0, 0
    for i, c in enumerate(text):
        if c == "(":
            depth += 1
        elif c == ")":
            depth -= 1
        elif c == "," and depth == 0:
            out.append(text[start:i])
            start = i + 1
    out.append(text[start:])
    return [x.strip() for x in out]


def _matching_paren(text: str, i: int) -> int:
    assert text[i] == "("
    depth = 0
    for j in range(i, len(text)):
        if text[j] == "(":
            depth += 1
        elif text[j] == ")":
            depth -= 1
            if depth == 0:
                return j
    raise TranslatorError("pending SQL: unbalanced parentheses")


def select_parts(sel: str, what: str):
    """`SELECT [DISTINCT] <proj> FROM <from> [WHERE <where>]` -> (distinct, proj, from, where|None)."""
    if not sel.startswith("SELECT "):
        raise TranslatorError(f"{what}: not a SELECT: {sel[:50]}")
    body = sel[len("SELECT "):]
    distinct = body.startswith("DISTINCT ")
    if distinct:
        body = body[len("DISTINCT "):]
    pf = split_top(body, "FROM")
    if len(pf) != 2:
        raise TranslatorError(f"{what}: expected exactly one top-level FROM")
    fw = split_top(pf[1], "WHERE")
    if len(fw) > 2:
        raise TranslatorError(f"{what}: more than one top-level WHERE")
    for kw in (" GROUP BY ", " ORDER BY ", " LIMIT ", " HAVING ", " UNION ", " EXCEPT ", " INTERSECT "):
        if any(len(split_top(" " + part + " ", kw.strip())) != 1 for part in fw):
            raise TranslatorError(f"{what}: unexpected{kw}clause")
    return distinct, split_commas(pf[0]), fw[0], (fw[1] if len(fw) == 2 else None)


# ---------------------------------------------------------------------------------------------
# Sub-select rewrites and column maps
# ---------------------------------------------------------------------------------------------

_IN_U = re.compile(r"([A-Za-z_]\w*(?:\.[A-Za-z_]\w*)?) (NOT )?IN \(SELECT i FROM pend_step\)")
_IN_ATTR = re.compile(r"\bi (NOT )?IN \(SELECT dst_step FROM pend_attributed\)")
_HAS_FB = "EXISTS (SELECT 1 FROM pend_file_block WHERE pend_file_block.dst_step = pend_step.i)"
_EX_STEP = re.compile(r"SELECT 1 FROM step WHERE step\.node = ([A-Za-z_]\w*\.[A-Za-z_]\w*) AND (.+)")


def rewrite_subselects(w: str, what: str, in_u: dict[str, str], src_col: str | None) -> str:
    """`in_u` maps the SQL column that may be tested for membership in pend_step to the pseudo
    column name (dst / src); `src_col` is the column an EXISTS(... FROM step ...) may refer to."""
    w = w.replace(_HAS_FB, "pseudo.has_file_block")

    def in_u_sub(m):
        col = m.group(1)
        if col not in in_u:
            raise TranslatorError(f"{what}: membership in pend_step tested for {col}, expected one of {sorted(in_u)}")
        return ("NOT " if m.group(2) else "") + "inU." + in_u[col]
    w = _IN_U.sub(in_u_sub, w)
    w = _IN_ATTR.sub(lambda m: ("NOT " if m.group(1) else "") + "pseudo.attributed", w)
    # EXISTS (SELECT 1 FROM step WHERE step.node = X AND C)
    while True:
        k = w.find("EXISTS (SELECT 1 FROM step ")
        if k < 0:
            break
        op = k + len("EXISTS ")
        cl = _matching_paren(w, op)
        m = _EX_STEP.fullmatch(w[op + 1:cl])
        if not m:
            raise TranslatorError(f"{what}: EXISTS sub-select not recognised: {w[op:cl + 1][:80]}")
        if src_col is None or m.group(1) != src_col:
            raise TranslatorError(f"{what}: EXISTS(... step.node = {m.group(1)}): expected {src_col}")
        inner = m.group(2)
        if "SELECT" in inner:
            raise TranslatorError(f"{what}: nested sub-select inside EXISTS")
        inner = re.sub(r"\bstep\.", "srcstep.", inner)
        w = w[:k] + "(srcstep.node IS NOT NULL AND (" + inner + "))" + w[cl + 1:]
    if "SELECT" in w.upper():
        raise TranslatorError(f"{what}: sub-select not recognised: {w[:100]}")
    return w


def subst_param(w: str, what: str) -> str:
    if w.count("?") != 1:
        raise TranslatorError(f"{what}: expected exactly one bound parameter, found {w.count('?')}")
    return w.replace("?", "param.p")


def colmap(table: dict[tuple[str | None, str], str], what: str):
    def col(t, name):
        if (t, name) not in table:
            raise TranslatorError(f"{what}: column {t + '.' if t else ''}{name} is not available here")
        return table[(t, name)]
    return col


def where_to_coq(w: str | None, table, what: str) -> tuple[str, object]:
    if w is None:
        return "(SConst 1)", ("const", 1)
    e = sqlexpr.parse(w)
    return sqlexpr.to_coq(e, colmap(table, what)), e


# ---------------------------------------------------------------------------------------------
# Column tables
# ---------------------------------------------------------------------------------------------

PSCOL = {
    ("step", "state"): "PS_state", ("step", "_implied_need"): "PS_ineed", ("param", "p"): "PS_threshold",
    ("node", "detached"): "PS_detached", ("step", "_safe"): "PS_safe", ("step", "_has_hash"): "PS_has_hash",
    ("step", "_safe_ignoring_hold"): "PS_safe_nh", ("step", "deferred"): "PS_deferred",
    ("step", "_holding"): "PS_holding",
}
FBCOL = {
    ("input_file", "state"): "FB_state", ("input_node", "detached"): "FB_detached",
    ("dynamic_dep", "i"): "FB_dyn", ("pend_step", "deferred"): "FB_ps_deferred",
    ("pend_step", "unsafe"): "FB_ps_unsafe",
}
UICOL = {k: v for k, v in FBCOL.items() if k[0] != "pend_step"}
ACOL = {("pend_attributed", "root_kind"): "A_root_kind", ("param", "p"): "A_param",
        ("pseudo", "attributed"): "A_attributed"}

_PROD_FROM = ("pend_file_block AS pfb JOIN dependency AS pdep ON pdep.sink = pfb.src_file "
              "JOIN node AS prod ON prod.i = pdep.source AND prod.kind = 'step'")

# relation -> (FROM text, dst column, src column, src_label column, columns usable in WHERE)
RELATIONS = {
    "RDeadFile": ("pend_file_block AS pfb JOIN pend_dead_file AS pdf ON pdf.i = pfb.src_file",
                  "pfb.dst_step", "pdf.i", "pdf.label",
                  {("pdf", "state"): "B_file_state", ("pdf", "detached"): "B_file_detached",
                   ("inU", "dst"): "B_dst_in_U"}),
    "RResource": ("step_resource AS req JOIN pend_resource AS pr ON pr.name = req.name "
                  "LEFT JOIN available_resource AS avail ON avail.name = req.name",
                  "req.node", "pr.id", "pr.name",
                  {("inU", "dst"): "B_dst_in_U", ("avail", "name"): "B_avail_name",
                   ("avail", "units"): "B_avail_units", ("req", "units"): "B_req_units"}),
    # the same rows without the availability columns (available_resource.name is unique, so the
    # LEFT JOIN neither adds nor removes a row)
    "RResource/bare": ("step_resource AS req JOIN pend_resource AS pr ON pr.name = req.name",
                       "req.node", "pr.id", "pr.name", {("inU", "dst"): "B_dst_in_U", ("req", "units"): "B_req_units"}),
    "RFailedProd": (_PROD_FROM + " JOIN step AS pstep ON pstep.node = prod.i",
                    "pfb.dst_step", "prod.i", "prod.label",
                    {("pstep", "state"): "B_src_state", ("inU", "src"): "B_src_in_U",
                     ("inU", "dst"): "B_dst_in_U"}),
    "RProd": (_PROD_FROM, "pfb.dst_step", "prod.i", None,
              {("inU", "src"): "B_src_in_U", ("inU", "dst"): "B_dst_in_U",
               ("srcstep", "node"): "B_src_is_step", ("srcstep", "state"): "B_src_state"}),
    "RAncStep": ("pend_unsafe_anc AS pua JOIN node AS anc ON anc.i = pua.anc "
                 "JOIN step AS astep ON astep.node = pua.anc",
                 "pua.dst_step", "pua.anc", "anc.label",
                 {("astep", "state"): "B_src_state", ("inU", "src"): "B_src_in_U",
                  ("inU", "dst"): "B_dst_in_U"}),
    "RAncBare": ("pend_unsafe_anc AS pua", "pua.dst_step", "pua.anc", "''",
                 {("inU", "src"): "B_src_in_U", ("inU", "dst"): "B_dst_in_U",
                  ("srcstep", "node"): "B_src_is_step", ("srcstep", "state"): "B_src_state"}),
    "RSelf": ("pend_step", "pend_step.i", "pend_step.i", "''",
              {("pend_step", "deferred"): "B_ps_deferred", ("pend_step", "unsafe"): "B_ps_unsafe",
               ("pseudo", "has_file_block"): "B_has_file_block"}),
    "RStepBlock": ("pend_step_block AS psb JOIN node AS src_node ON src_node.i = psb.src_step",
                   "psb.dst_step", "psb.src_step", "src_node.label", {}),
}


def _relation_of(frm: str, dst: str, src: str, label: str | None, what: str) -> str:
    """`label` is None for statements that project no label (pend_step_block)."""
    for name, (f, d, s, lab, _) in RELATIONS.items():
        if (f, d, s) == (frm, dst, src) and (label is None or lab == label):
            return name
    raise TranslatorError(f"{what}: FROM clause / projected columns not in the catalogue: "
                          f"dst={dst} src={src} label={label} FROM {frm[:90]}")


def _arm_where(rel: str, where: str | None, what: str) -> tuple[str, object]:
    _, dst, src, _, cols = RELATIONS[rel]
    if where is not None:
        where = rewrite_subselects(where, what, {dst: "dst", src: "src"}, src)
    return where_to_coq(where, cols, what)


# ---------------------------------------------------------------------------------------------
# The statements
# ---------------------------------------------------------------------------------------------

_PEND_STEP = re.compile(
    r"INSERT INTO pend_step\(i, label, unsafe, deferred\) SELECT node\.i, node\.label, (?P<unsafe>.+), "
    r"step\.deferred FROM node JOIN step ON node\.i = step\.node WHERE (?P<where>.+)")
_NTOTAL = re.compile(r"SELECT COUNT\(\*\) FROM step JOIN node ON node\.i = step\.node WHERE (?P<where>.+)")
_FILE_BLOCK_HEAD = "INSERT INTO pend_file_block(src_file, dst_step) "
_FILE_BLOCK_FROM = ("pend_step JOIN dependency AS dep ON dep.sink = pend_step.i "
                    "JOIN file AS input_file ON input_file.node = dep.source "
                    "JOIN node AS input_node ON input_node.i = dep.source "
                    "LEFT JOIN dynamic_dep ON dynamic_dep.i = dep.i")
_BLOCKER = re.compile(
    r"INSERT INTO pend_blocker\(dst_step, kind, src\) SELECT dst_step, kind, src FROM \(SELECT dst_step, kind, "
    r"src, ROW_NUMBER\(\) OVER \(PARTITION BY dst_step ORDER BY kind, src_label, src\) AS rn FROM "
    r"\((?P<arms>.+)\)\) WHERE rn = 1")
_RESOURCE = re.compile(
    r"INSERT INTO pend_resource\(name, units_needed, units_available\) SELECT req\.name, MAX\(req\.units\), "
    r"MAX\(avail\.units\) FROM pend_step JOIN step_resource AS req ON req\.node = pend_step\.i LEFT JOIN "
    r"available_resource AS avail ON avail\.name = req\.name WHERE (?P<where>.+) GROUP BY req\.name")
_DEAD_FILE = re.compile(
    r"INSERT INTO pend_dead_file\(i, label, state, detached\) SELECT DISTINCT f\.node, node\.label, f\.state, "
    r"node\.detached FROM pend_file_block AS pfb JOIN file AS f ON f\.node = pfb\.src_file JOIN node ON "
    r"node\.i = pfb\.src_file WHERE NOT EXISTS \(SELECT 1 FROM dependency AS pdep JOIN node AS pnode ON "
    r"pnode\.i = pdep\.source WHERE pdep\.sink = pfb\.src_file AND pnode\.kind = 'step' AND \((?P<live>.+)\)\)")
_BUCKET = re.compile(
    r"SELECT COUNT\(\*\), MIN\(pend_step\.label\) FROM pend_attributed JOIN pend_step ON "
    r"pend_step\.i = pend_attributed\.dst_step WHERE (?P<where>.+)")
_CYCLIC = re.compile(r"SELECT COUNT\(\*\), MIN\(label\) FROM pend_step WHERE (?P<where>.+)")


def _full(rx, text, what):
    m = rx.fullmatch(text)
    if not m:
        raise TranslatorError(f"{what}: statement skeleton not recognised: {text[:120]}")
    return m


def pend_step(pend):
    what = "_INSERT_PEND_STEP"
    m = _full(_PEND_STEP, norm(pend._INSERT_PEND_STEP), what)
    if "?" in m.group("unsafe"):
        raise TranslatorError(f"{what}: bound parameter in the unsafe expression")
    unsafe, _ = where_to_coq(m.group("unsafe"), PSCOL, what + "[unsafe]")
    where, _ = where_to_coq(subst_param(m.group("where"), what), PSCOL, what)
    m2 = _full(_NTOTAL, norm(pend._SELECT_NTOTAL), "_SELECT_NTOTAL")
    ntotal, _ = where_to_coq(subst_param(m2.group("where"), "_SELECT_NTOTAL"), PSCOL, "_SELECT_NTOTAL")
    return unsafe, where, ntotal


def file_block(pend):
    what = "_INSERT_PEND_FILE_BLOCK"
    text = norm(pend._INSERT_PEND_FILE_BLOCK)
    if not text.startswith(_FILE_BLOCK_HEAD):
        raise TranslatorError(f"{what}: INSERT target changed")
    distinct, proj, frm, where = select_parts(text[len(_FILE_BLOCK_HEAD):], what)
    if not distinct or proj != ["dep.source", "pend_step.i"] or frm != _FILE_BLOCK_FROM or where is None:
        raise TranslatorError(f"{what}: projection / FROM clause changed: {proj} FROM {frm[:80]}")
    step = importlib.import_module("stepup.core.step")
    ui, _ = where_to_coq(norm(step.UNAVAILABLE_INPUT_WHERE), UICOL, "UNAVAILABLE_INPUT_WHERE")
    fb, _ = where_to_coq(where, FBCOL, what)
    return ui, fb, norm(step.UNAVAILABLE_INPUT_WHERE)


def _arms(text: str, what: str, with_label: bool):
    arms = []
    for k, sel in enumerate(text):
        w = f"{what}[arm {k}]"
        distinct, proj, frm, where = select_parts(sel, w)
        if distinct:
            raise TranslatorError(f"{w}: DISTINCT")
        arms.append((w, proj, frm, where))
    return arms


def blocker(pend, kinds: dict[str, int]):
    what = "_INSERT_PEND_BLOCKER"
    m = _full(_BLOCKER, norm(pend._INSERT_PEND_BLOCKER), what)
    sels = split_top(m.group("arms"), "UNION ALL")
    if any(len(split_top(s, "UNION")) != 1 for s in sels):
        raise TranslatorError(f"{what}: plain UNION between candidate arms")
    out = []
    names = {v: k for k, v in kinds.items()}
    for w, proj, frm, where in _arms(sels, what, True):
        if len(proj) != 4:
            raise TranslatorError(f"{w}: expected four projected columns, got {proj}")
        got = {}
        for p, alias in zip(proj, ["dst_step", "kind", "src", "src_label"]):
            mm = re.fullmatch(r"(.+) AS " + alias, p)
            if not mm:
                raise TranslatorError(f"{w}: projected column {p!r} is not `... AS {alias}`")
            got[alias] = mm.group(1)
        if not re.fullmatch(r"\d+", got["kind"]) or int(got["kind"]) not in names:
            raise TranslatorError(f"{w}: kind {got['kind']} is not one of the ROOT_*/BLOCK_STEP constants")
        rel = _relation_of(frm, got["dst_step"], got["src"], got["src_label"], w)
        coq, _ = _arm_where(rel, where, w)
        out.append((rel.split("/")[0], "K_" + names[int(got["kind"])], coq))
    return out


def step_block(pend):
    what = "_INSERT_PEND_STEP_BLOCK"
    text = norm(pend._INSERT_PEND_STEP_BLOCK)
    head = "INSERT INTO pend_step_block(src_step, dst_step) "
    if not text.startswith(head):
        raise TranslatorError(f"{what}: INSERT target changed")
    sels = split_top(text[len(head):], "UNION")
    if any(s.startswith("ALL ") for s in sels):
        raise TranslatorError(f"{what}: UNION ALL (duplicates would be counted twice by the closure)")
    out = []
    for w, proj, frm, where in _arms(sels, what, False):
        if len(proj) != 2:
            raise TranslatorError(f"{w}: expected (src, dst), got {proj}")
        rel = _relation_of(frm, proj[1], proj[0], None, w)
        if rel not in ("RProd", "RAncBare"):
            raise TranslatorError(f"{w}: relation {rel} not expected here")
        coq, _ = _arm_where(rel, where, w)
        out.append((rel.split("/")[0], "K_BLOCK_STEP", coq))
    return out


def resource(pend):
    what = "_INSERT_PEND_RESOURCE"
    m = _full(_RESOURCE, norm(pend._INSERT_PEND_RESOURCE), what)
    cols = {k: v for k, v in RELATIONS["RResource"][4].items() if k[0] != "inU"}
    coq, _ = where_to_coq(m.group("where"), cols, what)
    return coq


def dead_file(pend):
    what = "_INSERT_PEND_DEAD_FILE"
    m = _full(_DEAD_FILE, norm(pend._INSERT_PEND_DEAD_FILE), what)
    live = rewrite_subselects(m.group("live"), what, {"pnode.i": "src"}, "pnode.i")
    cols = {("inU", "src"): "B_src_in_U", ("srcstep", "node"): "B_src_is_step",
            ("srcstep", "state"): "B_src_state"}
    coq, _ = where_to_coq(live, cols, what)
    return coq


def _sql_of_bucket_fn(tree, fname, params_src):
    fn = find_function(tree, fname)
    body = body_without_docstring(fn)
    if len(body) != 2 or not isinstance(body[0], ast.Assign) or not isinstance(body[1], ast.Return):
        raise TranslatorError(f"{fname}: body shape changed")
    if ast.unparse(body[1].value) != "PendingOther(nblocked=nblocked, example=example)" \
            or ast.unparse(body[0].targets[0]) != "(nblocked, example)":
        raise TranslatorError(f"{fname}: result is no longer (COUNT, MIN) of its query")
    call = body[0].value
    if not (isinstance(call, ast.Call) and ast.unparse(call.func).endswith(".fetchone") and not call.args):
        raise TranslatorError(f"{fname}: not a fetchone() of one query")
    ex = call.func.value
    if not (isinstance(ex, ast.Call) and ast.unparse(ex.func) == "db.execute" and ex.args
            and isinstance(ex.args[0], ast.Constant) and isinstance(ex.args[0].value, str)):
        raise TranslatorError(f"{fname}: query is not a string constant passed to db.execute")
    got = [ast.unparse(a) for a in ex.args[1:]]
    if got != params_src:
        raise TranslatorError(f"{fname}: query parameters changed: {got}")
    return norm(ex.args[0].value)


def buckets(kinds: dict[str, int]):
    tree = parse_module(f"{CORE}/pending.py")
    b = _full(_BUCKET, _sql_of_bucket_fn(tree, "_bucket", ["(root_kind,)"]), "_bucket")
    bw, _ = where_to_coq(subst_param(b.group("where"), "_bucket"), ACOL, "_bucket")
    c = _full(_CYCLIC, _sql_of_bucket_fn(tree, "_cyclic_bucket", []), "_cyclic_bucket")
    cw = rewrite_subselects(c.group("where"), "_cyclic_bucket", {}, None)
    cw, _ = where_to_coq(cw, ACOL, "_cyclic_bucket")
    # which bucket each field of PendingSummary is filled from
    fn = find_function(tree, "_analyze_pending")
    calls = [n for n in ast.walk(fn) if isinstance(n, ast.Call) and ast.unparse(n.func) == "PendingSummary"]
    full = [c_ for c_ in calls if any(k.arg == "ntotal" and ast.unparse(k.value) == "ntotal" for k in c_.keywords)]
    if len(calls) != 2 or len(full) != 1:
        raise TranslatorError("_analyze_pending: expected the empty summary and one full PendingSummary(...)")
    fields = []
    for kw in full[0].keywords:
        src = ast.unparse(kw.value)
        if kw.arg in ("failed", "cyclic", "deferred", "other", "runnable"):
            m = re.fullmatch(r"_bucket\(db, (ROOT_[A-Z]+)\)", src)
            if m and m.group(1) in kinds:
                fields.append((kw.arg, f"Some K_{m.group(1)}"))
            elif src == "_cyclic_bucket(db)":
                fields.append((kw.arg, "None"))
            else:
                raise TranslatorError(f"_analyze_pending: PendingSummary.{kw.arg} = {src} not recognised")
    if sorted(f for f, _ in fields) != ["cyclic", "deferred", "failed", "other", "runnable"]:
        raise TranslatorError(f"_analyze_pending: bucket fields changed: {fields}")
    return bw, cw, fields


_ATTRIBUTED = re.compile(
    r"INSERT INTO pend_attributed\(dst_step, root_kind, root_id\) WITH RECURSIVE walk\(i, root_kind, root_id\) AS "
    r"\(SELECT dst_step, kind, src FROM pend_blocker WHERE (?P<seed>.+) UNION ALL SELECT pend_blocker\.dst_step, "
    r"walk\.root_kind, walk\.root_id FROM walk JOIN pend_blocker ON (?P<join>.+)\) SELECT i, root_kind, root_id FROM walk")
_UNSAFE_ANC = re.compile(
    r"INSERT INTO pend_unsafe_anc\(dst_step, anc\) WITH RECURSIVE up\(dst_step, anc\) AS \(SELECT pend_step\.i, "
    r"node\.creator FROM pend_step JOIN node ON node\.i = pend_step\.i WHERE (?P<seed>.+) UNION ALL SELECT "
    r"up\.dst_step, node\.creator FROM up JOIN node ON node\.i = up\.anc JOIN step ON step\.node = up\.anc WHERE "
    r"(?P<cont>.+)\) SELECT up\.dst_step, up\.anc FROM up JOIN step ON step\.node = up\.anc WHERE (?P<stop>.+)")
_RUNNABLE = re.compile(
    r"INSERT INTO pend_blocker\(dst_step, kind, src\) SELECT i, (?P<kind>\d+), i FROM pend_step WHERE (?P<where>.+)")
WCOL_SEED = {(None, "kind"): "W_kind", (None, "src"): "W_src", (None, "dst_step"): "W_dst",
             ("pend_blocker", "kind"): "W_kind", ("pend_blocker", "src"): "W_src", ("pend_blocker", "dst_step"): "W_dst"}
WCOL_JOIN = {("pend_blocker", "kind"): "W_kind", ("pend_blocker", "src"): "W_src",
             ("pend_blocker", "dst_step"): "W_dst", ("walk", "i"): "W_walk_i"}
STEPCOL = {k: v for k, v in PSCOL.items() if k[0] == "step"}


def attributed(pend):
    what = "_INSERT_PEND_ATTRIBUTED"
    m = _full(_ATTRIBUTED, norm(pend._INSERT_PEND_ATTRIBUTED), what)
    for part in ("seed", "join"):
        if "SELECT" in m.group(part).upper() or "UNION" in m.group(part).upper():
            raise TranslatorError(f"{what}: the {part} condition contains another query")
    seed, _ = where_to_coq(m.group("seed"), WCOL_SEED, what + "[seed]")
    join, _ = where_to_coq(m.group("join"), WCOL_JOIN, what + "[join]")
    return seed, join


def unsafe_anc(pend):
    what = "_INSERT_PEND_UNSAFE_ANC"
    m = _full(_UNSAFE_ANC, norm(pend._INSERT_PEND_UNSAFE_ANC), what)
    for part in ("seed", "cont", "stop"):
        if "SELECT" in m.group(part).upper() or "UNION" in m.group(part).upper():
            raise TranslatorError(f"{what}: the {part} condition contains another query")
    seed, _ = where_to_coq(m.group("seed"), {k: v for k, v in RELATIONS["RSelf"][4].items() if k[0] == "pend_step"},
                           what + "[seed]")
    cont, _ = where_to_coq(m.group("cont"), STEPCOL, what + "[continue]")
    stop, _ = where_to_coq(m.group("stop"), STEPCOL, what + "[stop]")
    return seed, cont, stop


def runnable(pend, kinds):
    what = "_INSERT_PEND_BLOCKER_RUNNABLE"
    m = _full(_RUNNABLE, norm(pend._INSERT_PEND_BLOCKER_RUNNABLE), what)
    names = {v: k for k, v in kinds.items()}
    if int(m.group("kind")) not in names:
        raise TranslatorError(f"{what}: kind {m.group('kind')} is not one of the ROOT_* constants")
    w = m.group("where")
    w = re.sub(r"\bi (NOT )?IN \(SELECT dst_step FROM pend_blocker\)",
               lambda mm: ("NOT " if mm.group(1) else "") + "pseudo.has_blocker", w)
    if "SELECT" in w.upper():
        raise TranslatorError(f"{what}: sub-select not recognised: {w[:80]}")
    coq, _ = where_to_coq(w, {("pseudo", "has_blocker"): "B_has_blocker", ("pend_step", "deferred"): "B_ps_deferred",
                              ("pend_step", "unsafe"): "B_ps_unsafe"}, what)
    return "K_" + names[int(m.group("kind"))], coq


def seeds(pend, kinds):
    """_INSERT_PEND_SEED_FILE / _RESOURCE: the direct root -> step edges of the exact-count closure."""
    names = {v: k for k, v in kinds.items()}
    out = []
    head = "INSERT INTO pend_seed(root_kind, root_id, dst_step) "
    for what, text in (("_INSERT_PEND_SEED_FILE", pend._INSERT_PEND_SEED_FILE),
                       ("_INSERT_PEND_SEED_RESOURCE", pend._INSERT_PEND_SEED_RESOURCE)):
        text = norm(text)
        if not text.startswith(head):
            raise TranslatorError(f"{what}: INSERT target changed")
        distinct, proj, frm, where = select_parts(text[len(head):], what)
        if len(proj) != 3 or not re.fullmatch(r"\d+", proj[0]) or int(proj[0]) not in names:
            raise TranslatorError(f"{what}: projection changed: {proj}")
        if not distinct:
            raise TranslatorError(f"{what}: DISTINCT dropped (a pair would be counted twice)")
        rel = None
        for name, (f, d, s_, lab, _) in RELATIONS.items():
            if (f, d, s_) == (frm, proj[2], proj[1]):
                rel = name
        if rel is None or rel.split("/")[0] not in ("RDeadFile", "RResource"):
            raise TranslatorError(f"{what}: FROM clause / projected columns not in the catalogue: {frm[:90]}")
        coq, _ = _arm_where(rel, where, what)
        out.append((rel.split("/")[0], "K_" + names[int(proj[0])], coq))
    return out


_TABLE_WRITE = re.compile(r"^INSERT INTO (pend_\w+)")
_TABLE_READ = re.compile(r"\b(?:FROM|JOIN) (pend_\w+)")


def exec_order(pend):
    """The INSERT statements _analyze_pending executes, in order; the order must respect the data flow between
    the scratch tables (a statement that reads pend_X runs after every other statement that fills pend_X).  Any
    order with that property gives the same tables, so a harmless reordering is accepted."""
    tree = parse_module(f"{CORE}/pending.py")
    fn = find_function(tree, "_analyze_pending")
    calls = []
    for n in ast.walk(fn):
        if isinstance(n, ast.Call) and ast.unparse(n.func) == "db.execute" and n.args \
                and isinstance(n.args[0], ast.Name) and n.args[0].id.startswith("_INSERT"):
            params = [ast.unparse(a) for a in n.args[1:]]
            calls.append((n.lineno, n.col_offset, n.args[0].id, params))
    calls.sort()
    order = [c[2] for c in calls]
    if len(set(order)) != len(order):
        raise TranslatorError(f"_analyze_pending executes a statement twice: {order}")
    info = {}
    for _, _, name, params in calls:
        text = norm(getattr(pend, name))
        w = _TABLE_WRITE.match(text)
        if not w:
            raise TranslatorError(f"{name}: not an INSERT INTO pend_*")
        nparam = text.count("?")
        if (nparam, params) not in ((0, []), (1, ["(threshold,)"])):
            raise TranslatorError(f"{name}: {nparam} placeholder(s) but parameters {params}")
        info[name] = (w.group(1), set(_TABLE_READ.findall(text)))
    for k, name in enumerate(order):
        _, reads = info[name]
        for later in order[k + 1:]:
            if info[later][0] in reads:
                raise TranslatorError(f"_analyze_pending: {name} reads {info[later][0]} before {later} has filled it")
    return order, info


def analyze_structure():
    """Shape of _analyze_pending around the statements: threshold / ntotal, early return, drop - try - create -
    inserts - results - finally drop."""
    tree = parse_module(f"{CORE}/pending.py")
    fn = find_function(tree, "_analyze_pending")
    body = body_without_docstring(fn)
    src = [ast.unparse(s_) for s_ in body]
    need = ["db = workflow.db", "threshold = workflow.need_threshold.value",
            "ntotal = db.execute(_SELECT_NTOTAL, (threshold,)).fetchone()[0]"]
    if src[:3] != need:
        raise TranslatorError(f"_analyze_pending: preamble changed: {src[:3]}")
    if not (isinstance(body[3], ast.If) and ast.unparse(body[3].test) == "ntotal == 0"
            and isinstance(body[3].body[-1], ast.Return)):
        raise TranslatorError("_analyze_pending: the `ntotal == 0` early return changed")
    if src[4] != "_drop_pend_tables(db)" or not isinstance(body[5], ast.Try) or len(body) != 6:
        raise TranslatorError("_analyze_pending: expected drop, then try/finally")
    tr = body[5]
    if tr.handlers or [ast.unparse(s_) for s_ in tr.finalbody] != ["_drop_pend_tables(db)"]:
        raise TranslatorError("_analyze_pending: try has handlers or the finally block changed")
    first = ast.unparse(tr.body[0])
    if first != "for stmt in _CREATE_PEND_TABLES:\n    db.execute(stmt)":
        raise TranslatorError("_analyze_pending: the scratch tables are not created first")
    if not isinstance(tr.body[-1], ast.Return) or ast.unparse(tr.body[-1]) != "return (summary, attributed_totals)":
        raise TranslatorError("_analyze_pending: result changed")
    totals = [ast.unparse(s_) for s_ in tr.body if isinstance(s_, ast.Assign)
              and ast.unparse(s_.targets[0]) == "attributed_totals"]
    if totals != ["attributed_totals = dict(db.execute('SELECT root_kind, COUNT(*) FROM pend_attributed GROUP BY root_kind'))"]:
        raise TranslatorError(f"_analyze_pending: attributed_totals changed: {totals}")
    # inserts come before the first read of the results
    kinds_seen, phase = [], 0
    for s_ in tr.body[1:]:
        txt = ast.unparse(s_)
        is_insert = txt.startswith("db.execute(_INSERT")
        if is_insert and phase == 1:
            raise TranslatorError("_analyze_pending: an INSERT statement runs after the results are read")
        if not is_insert:
            phase = 1
    return True


def generate_lines(kinds: dict[str, int]) -> list[str]:
    """Gallina definitions for gen/GenPending.v (after the K_* constants)."""
    from .astutil import coq_str
    pend = _pending()
    unsafe, where, ntotal = pend_step(pend)
    ui, fb, ui_text = file_block(pend)
    arms = blocker(pend, kinds)
    sb = step_block(pend)
    res = resource(pend)
    live = dead_file(pend)
    bw, cw, fields = buckets(kinds)
    aseed, ajoin = attributed(pend)
    useed, ucont, ustop = unsafe_anc(pend)
    rkind, rwhere = runnable(pend, kinds)
    seed_arms = seeds(pend, kinds)

    def arm_list(arms):
        return "[\n" + ";\n".join(f"  mk_arm {r} {k}\n    {w}" for r, k, w in arms) + "\n]"
    return [
        "(* pending.py: boolean parts of the statements that build the report, translated by",
        "   translator/gen_pending_sql.py + sqlexpr.py; the skeletons were compared with the catalogue *)",
        f"(* step.UNAVAILABLE_INPUT_WHERE: {ui_text} *)",
        f"Definition gen_unavailable_input : sexpr fbcol :=\n  {ui}.",
        f"Definition gen_file_block_where : sexpr fbcol :=\n  {fb}.",
        f"Definition gen_pend_step_where : sexpr pscol :=\n  {where}.",
        f"Definition gen_pend_step_unsafe : sexpr pscol :=\n  {unsafe}.",
        f"Definition gen_ntotal_where : sexpr pscol :=\n  {ntotal}.",
        f"Definition gen_pend_resource_where : sexpr bcol :=\n  {res}.",
        f"Definition gen_live_producer : sexpr bcol :=\n  {live}.",
        f"Definition gen_step_block_arms : list arm := {arm_list(sb)}.",
        f"Definition gen_blocker_arms : list arm := {arm_list(arms)}.",
        "(* _INSERT_PEND_UNSAFE_ANC: seed, continue-through and stop conditions of the creator walk *)",
        f"Definition gen_anc_seed_where : sexpr bcol :=\n  {useed}.",
        f"Definition gen_anc_cont_where : sexpr pscol :=\n  {ucont}.",
        f"Definition gen_anc_stop_where : sexpr pscol :=\n  {ustop}.",
        "(* _INSERT_PEND_BLOCKER_RUNNABLE *)",
        f"Definition gen_runnable_kind : N := {rkind}.",
        f"Definition gen_runnable_where : sexpr bcol :=\n  {rwhere}.",
        "(* _INSERT_PEND_SEED_FILE / _INSERT_PEND_SEED_RESOURCE *)",
        f"Definition gen_seed_arms : list arm := {arm_list(seed_arms)}.",
        "(* _INSERT_PEND_ATTRIBUTED: seed rows and the join of the recursive step *)",
        f"Definition gen_attr_seed_where : sexpr wcol :=\n  {aseed}.",
        f"Definition gen_attr_join : sexpr wcol :=\n  {ajoin}.",
        f"Definition gen_bucket_where : sexpr acol :=\n  {bw}.",
        f"Definition gen_cyclic_where : sexpr acol :=\n  {cw}.",
        "(* _analyze_pending: which query fills which field of PendingSummary (None = _cyclic_bucket) *)",
        "Definition gen_summary_buckets : list (str * option N) := ["
        + "; ".join(f"({coq_str(f)}, {k})" for f, k in fields) + "].",
    ]
