"""Translator for C13, call sites: executor.py / step.py / scheduler.py / job.py -> coq/gen/GenHashSites.v.

The model of hash.py (gen_hash.py) starts at the arguments of StepHash.from_inp / with_out_hashes.
This translator covers the step before: how the ingredient maps are built from what the system
knows about a step.  Read from the AST on every run, fail closed on any other shape:

  * every call of `<x>.from_inp(...)`, `<x>.with_out_hashes(...)` and `StepHash(...)` in
    stepup/core/*.py (outside hash.py): exactly the four known sites in executor.py
  * the argument expressions of each site
        label          run.step.label                  -> adjust_label command workdir
        input hashes   <r>.all_hashes, <r> the result of compute_inp_hashes / compute_both_hashes on
                       the parameter inp_hashes / the BUILT+CONFIRMED inputs of the step, reached only
                       when <r>.messages is empty
        environment    {name: E for name in env_deps} (directly or through a one-expression helper
                       method), E in  D.get(name) | D.get(name) or None | D.get(name, "const") |
                       D[name] if name in D else None,  D in self.base_env | os.environ
        shell          local bound to run.step.uses_shell()
        env_overrides  local bound to run.step.get_env_overrides()
        explained      self.explain_rerun (ignored: E1 checks explained == compact)
  * Executor.base_env ({**os.environ, **self.infra_env}), `env = dict(self.base_env)` in _run_command
  * Step.adjust_label (marker, the `workdir != "."` test, the raise on a marker in the command),
    Step.command_and_workdir, Step.uses_shell, Step.get_env_overrides / set_env_overrides
  * where inp_hashes / env_deps of _compute_inp_step_hash come from (_new_run, the three job
    functions, job.py, Scheduler._derive_job)
  * compute_inp_hashes / compute_out_hashes / compute_both_hashes: all_hashes gets the refreshed
    hash of every path, HashComputeResult field order
"""

from __future__ import annotations

import ast

from .astutil import REPO, TranslatorError, body_without_docstring, find_function, parse_module
from .gen_hash import coq_bytes

EXE = "stepup/core/executor.py"
STEP = "stepup/core/step.py"
HASH = "stepup/core/hash.py"
SCHED = "stepup/core/scheduler.py"
JOB = "stepup/core/job.py"
WF = "stepup/core/workflow.py"

EXPECTED_SITES = {
    (EXE, "_compute_inp_step_hash", "from_inp"),
    (EXE, "_compute_full_step_hash", "from_inp"),
    (EXE, "_compute_out_step_hash", "with_out_hashes"),
    (EXE, "_compute_full_step_hash", "with_out_hashes"),
}
INP_SRC_FULL = ("{rec.path: rec.hash for rec in run.step.inp_paths() "
                "if rec.state in (FileState.BUILT, FileState.CONFIRMED)}")
OUT_SRC = "{rec.path: rec.hash for rec in run.step.out_paths()}"


def _u(node) -> str:
    return ast.unparse(node)


def _name(node, name=None):
    return isinstance(node, ast.Name) and (name is None or node.id == name)


# ---------------------------------------------------------------------------------------------
# enumeration of call sites
# ---------------------------------------------------------------------------------------------


def _enclosing_functions(tree):
    """Map id(call node) -> name of the innermost enclosing function."""
    out = {}

    def rec(node, fn):
        for child in ast.iter_child_nodes(node):
            cur = child.name if isinstance(child, (ast.FunctionDef, ast.AsyncFunctionDef)) else fn
            if isinstance(child, ast.Call):
                out[id(child)] = cur
            rec(child, cur)
    rec(tree, None)
    return out


def enumerate_sites():
    sites = []
    for path in sorted((REPO / "stepup/core").rglob("*.py")):
        rel = str(path.relative_to(REPO))
        if rel == HASH:
            continue
        tree = parse_module(rel)
        # StepHash bound under another name would hide a call site
        for node in ast.walk(tree):
            if isinstance(node, (ast.Import, ast.ImportFrom)):
                for a in node.names:
                    if a.name == "StepHash" and a.asname not in (None, "StepHash"):
                        raise TranslatorError(f"{rel}: StepHash imported as {a.asname}")
            if isinstance(node, ast.Assign) and _name(node.value, "StepHash"):
                raise TranslatorError(f"{rel}: StepHash bound to another name: {_u(node)}")
        enc = _enclosing_functions(tree)
        for node in ast.walk(tree):
            if not isinstance(node, ast.Call):
                continue
            f = node.func
            kind = None
            if isinstance(f, ast.Attribute) and f.attr in ("from_inp", "with_out_hashes"):
                kind = f.attr
            elif _name(f, "StepHash") or (isinstance(f, ast.Attribute) and f.attr == "StepHash"):
                kind = "StepHash"
            elif isinstance(f, ast.Name) and f.id == "getattr" and node.args \
                    and any(isinstance(a, ast.Constant) and a.value in ("from_inp", "with_out_hashes")
                            for a in node.args):
                kind = "getattr"
            if kind is not None:
                sites.append((rel, enc.get(id(node)), kind, node))
    found = {(r, fn, k) for r, fn, k, _ in sites}
    extra = found - EXPECTED_SITES
    if extra:
        raise TranslatorError("new call site(s) that build a step hash: "
                              + ", ".join(f"{r}:{fn}:{k}" for r, fn, k in sorted(extra, key=str)))
    missing = EXPECTED_SITES - found
    if missing:
        raise TranslatorError("call site(s) not found: " + ", ".join(f"{r}:{fn}:{k}" for r, fn, k in sorted(missing)))
    if len(sites) != len(EXPECTED_SITES):
        raise TranslatorError("a function calls from_inp / with_out_hashes more than once")
    return {(fn, k): node for _, fn, k, node in sites}


# ---------------------------------------------------------------------------------------------
# local bindings of a function
# ---------------------------------------------------------------------------------------------


def _bindings(fn):
    """name -> list of value expressions (simple and tuple assignments anywhere in the body)."""
    out = {}
    for node in ast.walk(fn):
        if isinstance(node, ast.Assign) and len(node.targets) == 1:
            t = node.targets[0]
            if isinstance(t, ast.Name):
                out.setdefault(t.id, []).append(node.value)
            elif isinstance(t, ast.Tuple) and all(_name(e) for e in t.elts):
                for i, e in enumerate(t.elts):
                    out.setdefault(e.id, []).append(("unpack", i, node.value))
        elif isinstance(node, ast.AnnAssign) and isinstance(node.target, ast.Name) and node.value is not None:
            out.setdefault(node.target.id, []).append(node.value)
        elif isinstance(node, (ast.AugAssign, ast.NamedExpr)):
            t = node.target
            if isinstance(t, ast.Name):
                out.setdefault(t.id, []).append(("aug", node))
        elif isinstance(node, (ast.For, ast.AsyncFor, ast.comprehension)):
            for n in ast.walk(node.target):
                if isinstance(n, ast.Name):
                    out.setdefault(n.id, []).append(("loop", node))
    return out


def _single(binds, name, where):
    vals = binds.get(name, [])
    if len(vals) != 1:
        raise TranslatorError(f"{where}: `{name}` is bound {len(vals)} times (model: exactly once)")
    return vals[0]


def _params(fn):
    return [a.arg for a in fn.args.args + fn.args.kwonlyargs]


# ---------------------------------------------------------------------------------------------
# argument expressions
# ---------------------------------------------------------------------------------------------


def _env_source(expr, aliases, where):
    """The dict a variable is looked up in -> Gallina term of type list (str * str)."""
    if _name(expr) and expr.id in aliases:
        return aliases[expr.id]
    txt = _u(expr)
    if txt == "self.base_env":
        return "base_env s"
    if txt == "os.environ":
        return "sys_environ s"
    raise TranslatorError(f"{where}: environment values are looked up in `{txt}` (model: self.base_env / os.environ)")


def _env_value(expr, var, aliases, where):
    """Value expression of the environment map for the loop variable `var` -> option str term."""
    # D.get(name) or None
    if isinstance(expr, ast.BoolOp) and isinstance(expr.op, ast.Or) and len(expr.values) == 2 \
            and isinstance(expr.values[1], ast.Constant) and expr.values[1].value is None:
        return f"or_none ({_env_value(expr.values[0], var, aliases, where)})"
    # D.get(name) / D.get(name, "const") / D.get(name, None)
    if isinstance(expr, ast.Call) and isinstance(expr.func, ast.Attribute) and expr.func.attr == "get" \
            and not expr.keywords and 1 <= len(expr.args) <= 2 and _name(expr.args[0], var):
        d = _env_source(expr.func.value, aliases, where)
        if len(expr.args) == 1 or (isinstance(expr.args[1], ast.Constant) and expr.args[1].value is None):
            return f"env_get ({d}) name"
        dflt = expr.args[1]
        if isinstance(dflt, ast.Constant) and isinstance(dflt.value, str):
            return f"env_get_default ({d}) name {coq_bytes(dflt.value.encode())}"
        raise TranslatorError(f"{where}: unsupported default in {_u(expr)}")
    # D[name] if name in D else None
    if isinstance(expr, ast.IfExp) and isinstance(expr.orelse, ast.Constant) and expr.orelse.value is None \
            and isinstance(expr.test, ast.Compare) and len(expr.test.ops) == 1 \
            and isinstance(expr.test.ops[0], ast.In) and _name(expr.test.left, var) \
            and isinstance(expr.body, ast.Subscript) and _name(expr.body.slice, var) \
            and _u(expr.body.value) == _u(expr.test.comparators[0]):
        return f"env_get ({_env_source(expr.body.value, aliases, where)}) name"
    raise TranslatorError(f"{where}: unsupported value expression of the environment map: {_u(expr)}")


def _env_dictcomp(expr, names_var, aliases, where):
    if not (isinstance(expr, ast.DictComp) and len(expr.generators) == 1):
        raise TranslatorError(f"{where}: the environment map is not a dict comprehension: {_u(expr)[:90]}")
    g = expr.generators[0]
    if g.ifs or g.is_async:
        raise TranslatorError(f"{where}: the environment map filters the tracked variables: {_u(expr)[:90]}")
    if not (_name(g.target) and _name(expr.key, g.target.id)):
        raise TranslatorError(f"{where}: the keys of the environment map are not the tracked names: {_u(expr)[:90]}")
    if not _name(g.iter, names_var):
        raise TranslatorError(f"{where}: the environment map does not iterate over `{names_var}`: {_u(g.iter)}")
    return _env_value(expr.value, g.target.id, aliases, where)


def translate_env_arg(expr, exe_tree, where):
    """-> Gallina term for the value of one tracked variable `name` (free: s, name)."""
    if isinstance(expr, ast.DictComp):
        return _env_dictcomp(expr, "env_deps", {}, where)
    # self.<helper>(env_deps): a method whose body is [aliases;] return <dict comprehension>
    if isinstance(expr, ast.Call) and isinstance(expr.func, ast.Attribute) and _name(expr.func.value, "self") \
            and len(expr.args) == 1 and not expr.keywords and _name(expr.args[0], "env_deps"):
        helper = find_function(exe_tree, expr.func.attr, cls="Executor")
        if isinstance(helper, ast.AsyncFunctionDef) or helper.decorator_list:
            raise TranslatorError(f"{where}: helper {helper.name} is async or decorated")
        ps = _params(helper)
        if len(ps) != 2 or ps[0] != "self":
            raise TranslatorError(f"{where}: helper {helper.name} has parameters {ps}")
        body = body_without_docstring(helper)
        aliases = {}
        for st in body[:-1]:
            if not (isinstance(st, ast.Assign) and len(st.targets) == 1 and _name(st.targets[0])):
                raise TranslatorError(f"{where}: helper {helper.name}: unsupported statement {_u(st)[:80]}")
            aliases[st.targets[0].id] = _env_source(st.value, aliases, f"{where}:{helper.name}")
        if not (body and isinstance(body[-1], ast.Return) and body[-1].value is not None):
            raise TranslatorError(f"{where}: helper {helper.name} does not end in `return <expr>`")
        return _env_dictcomp(body[-1].value, ps[1], aliases, f"{where}:{helper.name}")
    raise TranslatorError(f"{where}: unsupported environment argument: {_u(expr)[:100]}")


def _worker_call(value, where):
    """`await self._run_work_thread(run, functools.partial(f, a...))` -> (f, [arg names])."""
    if isinstance(value, ast.Await):
        value = value.value
    if not (isinstance(value, ast.Call) and _u(value.func) == "self._run_work_thread" and len(value.args) == 2
            and not value.keywords and _name(value.args[0], "run")):
        raise TranslatorError(f"{where}: hash result is not `await self._run_work_thread(run, ...)`: {_u(value)[:90]}")
    part = value.args[1]
    if not (isinstance(part, ast.Call) and _u(part.func) == "functools.partial" and not part.keywords
            and len(part.args) >= 2 and all(_name(a) for a in part.args)):
        raise TranslatorError(f"{where}: work is not functools.partial(<function>, <maps>): {_u(part)[:90]}")
    return part.args[0].id, [a.id for a in part.args[1:]]


def translate_hashes_arg(expr, binds, params, which, where):
    """`<r>.all_hashes` -> ('inp'|'out', name of the map the hashes were computed from)."""
    if not (isinstance(expr, ast.Attribute) and _name(expr.value)):
        raise TranslatorError(f"{where}: the {which} hashes are not `<result>.all_hashes`: {_u(expr)[:100]}")
    if expr.attr != "all_hashes":
        raise TranslatorError(f"{where}: the {which} hashes are `{_u(expr)}`, not the `all_hashes` of the result")
    r = expr.value.id
    val = _single(binds, r, where)
    if isinstance(val, tuple) and val[0] == "unpack":
        _, idx, src = val
        if not _name(src):
            raise TranslatorError(f"{where}: `{r}` unpacked from {_u(src)[:60]}")
        fname, args = _worker_call(_single(binds, src.id, where), where)
        if fname != "compute_both_hashes" or len(args) != 2:
            raise TranslatorError(f"{where}: `{r}` is unpacked from {fname}({', '.join(args)})")
        if idx != {"inp": 0, "out": 1}[which]:
            raise TranslatorError(f"{where}: the {which} hashes are taken from position {idx} of compute_both_hashes")
        return r, args[idx]
    if isinstance(val, tuple):
        raise TranslatorError(f"{where}: `{r}` is not a plain assignment")
    fname, args = _worker_call(val, where)
    want = {"inp": "compute_inp_hashes", "out": "compute_out_hashes"}[which]
    if fname != want or len(args) != 1:
        raise TranslatorError(f"{where}: the {which} hashes come from {fname}({', '.join(args)}) (model: {want})")
    return r, args[0]


def _check_map_source(name, binds, params, which, fn_name, where):
    """Where the path->hash map given to the hash worker comes from."""
    if name in params:
        if fn_name != "_compute_inp_step_hash" or which != "inp" or name != "inp_hashes":
            raise TranslatorError(f"{where}: {which} hashes computed from parameter `{name}`")
        return "job"
    val = _single(binds, name, where)
    txt = _u(val) if not isinstance(val, tuple) else str(val[0])
    want = INP_SRC_FULL if which == "inp" else OUT_SRC
    if txt != want:
        raise TranslatorError(f"{where}: the {which} paths are `{txt[:120]}` (model: `{want}`)")
    return "db"


def _guard_no_messages(fn, call, rname, where):
    """from_inp must only be reached when <r>.messages is empty."""
    # (a) the call sits inside `if len(r.messages) == 0:`
    for node in ast.walk(fn):
        if isinstance(node, ast.If) and _u(node.test) == f"len({rname}.messages) == 0":
            if any(n is call for b in node.body for n in ast.walk(b)):
                return "inside-if"
    # (b) an earlier top-level `if len(r.messages) > 0:` whose body ends in return
    body = body_without_docstring(fn)
    for i, st in enumerate(body):
        if isinstance(st, ast.If) and _u(st.test) == f"len({rname}.messages) > 0" and not st.orelse \
                and st.body and isinstance(st.body[-1], ast.Return):
            if any(n is call for later in body[i + 1:] for n in ast.walk(later)):
                return "early-return"
    raise TranslatorError(f"{where}: from_inp is not guarded by `{rname}.messages` being empty")


def _relocate(fn, call):
    """The same call node inside `fn` (the sites were enumerated on another parse of the file)."""
    same = [n for n in ast.walk(fn) if isinstance(n, ast.Call) and ast.dump(n) == ast.dump(call)
            and n.lineno == call.lineno]
    if len(same) != 1:
        raise TranslatorError(f"{fn.name}: call site at line {call.lineno} not found again")
    return same[0]


def translate_from_inp_site(fn, call, exe_tree):
    where = f"{fn.name}:from_inp"
    call = _relocate(fn, call)
    if not (_u(call.func) == "StepHash.from_inp"):
        raise TranslatorError(f"{where}: called as {_u(call.func)}")
    if len(call.args) != 3 or any(isinstance(a, ast.Starred) for a in call.args):
        raise TranslatorError(f"{where}: {len(call.args)} positional arguments (model: label, inp_hashes, env_values)")
    kws = {k.arg: k.value for k in call.keywords}
    if None in kws or set(kws) != {"explained", "shell", "env_overrides"}:
        raise TranslatorError(f"{where}: keyword arguments {sorted(map(str, kws))} "
                              "(model: explained, shell, env_overrides)")
    binds, params = _bindings(fn), _params(fn)
    if _u(call.args[0]) != "run.step.label":
        raise TranslatorError(f"{where}: the label argument is `{_u(call.args[0])}` (model: run.step.label)")
    rname, src = translate_hashes_arg(call.args[1], binds, params, "inp", where)
    origin = _check_map_source(src, binds, params, "inp", fn.name, where)
    guard = _guard_no_messages(fn, call, rname, where)
    # tracked names
    if "env_deps" in params:
        if fn.name != "_compute_inp_step_hash":
            raise TranslatorError(f"{where}: env_deps is a parameter")
        deps = "job"
    else:
        if _u(_single(binds, "env_deps", where)) != "list(run.step.env_deps())":
            raise TranslatorError(f"{where}: env_deps is `{_u(_single(binds, 'env_deps', where))}`")
        deps = "db"
    envval = translate_env_arg(call.args[2], exe_tree, where)
    for kw, want in (("shell", "run.step.uses_shell()"), ("env_overrides", "run.step.get_env_overrides()")):
        v = kws[kw]
        if not _name(v):
            raise TranslatorError(f"{where}: {kw}={_u(v)[:60]} is not a local variable")
        got = _single(binds, v.id, where)
        if isinstance(got, tuple) or _u(got) != want:
            raise TranslatorError(f"{where}: {kw} is bound to `{_u(got) if not isinstance(got, tuple) else got[0]}` "
                                  f"(model: {want})")
    if _u(kws["explained"]) != "self.explain_rerun":
        raise TranslatorError(f"{where}: explained={_u(kws['explained'])}")
    return {"envval": envval, "inps_from": origin, "env_deps_from": deps, "guard": guard}


def translate_with_out_site(fn, call):
    where = f"{fn.name}:with_out_hashes"
    call = _relocate(fn, call)
    if len(call.args) != 1 or call.keywords or not _name(call.func.value, "step_hash"):
        raise TranslatorError(f"{where}: unsupported call {_u(call)[:90]}")
    binds, params = _bindings(fn), _params(fn)
    rname, src = translate_hashes_arg(call.args[0], binds, params, "out", where)
    _check_map_source(src, binds, params, "out", fn.name, where)
    return {}


# ---------------------------------------------------------------------------------------------
# the other places
# ---------------------------------------------------------------------------------------------


def check_base_env(exe_tree):
    fn = find_function(exe_tree, "base_env", cls="Executor")
    if [_u(d) for d in fn.decorator_list] != ["property"]:
        raise TranslatorError("Executor.base_env is not a property")
    body = body_without_docstring(fn)
    if not (len(body) == 2 and isinstance(body[0], ast.If) and _u(body[0].test) == "self._base_env_cache is None"
            and len(body[0].body) == 1 and not body[0].orelse
            and _u(body[0].body[0]) == "self._base_env_cache = {**os.environ, **self.infra_env}"
            and _u(body[1]) == "return self._base_env_cache"):
        raise TranslatorError("Executor.base_env is not the cached `{**os.environ, **self.infra_env}`")
    # nothing else may write the cache
    cls = next(n for n in ast.walk(exe_tree) if isinstance(n, ast.ClassDef) and n.name == "Executor")
    writes = [n for n in ast.walk(cls) if isinstance(n, (ast.Assign, ast.AugAssign, ast.AnnAssign))
              and any(isinstance(t, ast.Attribute) and t.attr == "_base_env_cache"
                      for t in (n.targets if isinstance(n, ast.Assign) else [n.target]))]
    if len(writes) != 1:
        raise TranslatorError(f"Executor._base_env_cache is written in {len(writes)} places (model: one)")
    run_cmd = find_function(exe_tree, "_run_command", cls="Executor")
    envs = [n for n in ast.walk(run_cmd) if isinstance(n, ast.Assign) and len(n.targets) == 1
            and _name(n.targets[0], "env")]
    if len(envs) != 1 or _u(envs[0].value) != "dict(self.base_env)":
        raise TranslatorError("_run_command: the environment of the command does not start as `dict(self.base_env)`")
    return "dict_merge (sys_environ s) (sys_infra s)"


def translate_adjust_label(step_tree, wf_tree):
    fn = find_function(step_tree, "adjust_label", cls="Step")
    ps = [a.arg for a in fn.args.args]
    if ps != ["cls", "label", "workdir"] or len(fn.args.defaults) != 1 \
            or not (isinstance(fn.args.defaults[0], ast.Constant) and isinstance(fn.args.defaults[0].value, str)):
        raise TranslatorError(f"Step.adjust_label signature changed: {ps}")
    default = fn.args.defaults[0].value
    body = body_without_docstring(fn)
    if not (len(body) == 3 and isinstance(body[0], ast.If) and isinstance(body[1], ast.If)
            and isinstance(body[2], ast.Return) and _name(body[2].value, "label")):
        raise TranslatorError("Step.adjust_label is not `if ..: raise; if ..: label += ..; return label`")
    g = body[0]
    if not (isinstance(g.test, ast.Compare) and len(g.test.ops) == 1 and isinstance(g.test.ops[0], ast.In)
            and isinstance(g.test.left, ast.Constant) and isinstance(g.test.left.value, str)
            and _name(g.test.comparators[0], "label") and len(g.body) == 1 and isinstance(g.body[0], ast.Raise)
            and not g.orelse):
        raise TranslatorError("Step.adjust_label: the first statement is not `if <marker> in label: raise`")
    marker = g.test.left.value
    a = body[1]
    if not (isinstance(a.test, ast.Compare) and len(a.test.ops) == 1 and isinstance(a.test.ops[0], ast.NotEq)
            and _name(a.test.left, "workdir") and isinstance(a.test.comparators[0], ast.Constant)
            and a.test.comparators[0].value == default and not a.orelse and len(a.body) == 1):
        raise TranslatorError(f"Step.adjust_label: the workdir test is not `workdir != {default!r}`")
    st = a.body[0]
    ok = (isinstance(st, ast.AugAssign) and isinstance(st.op, ast.Add) and _name(st.target, "label")
          and isinstance(st.value, ast.JoinedStr) and len(st.value.values) == 2
          and isinstance(st.value.values[0], ast.Constant) and st.value.values[0].value == marker
          and isinstance(st.value.values[1], ast.FormattedValue) and _name(st.value.values[1].value, "workdir")
          and st.value.values[1].conversion == -1 and st.value.values[1].format_spec is None)
    if not ok:
        raise TranslatorError(f"Step.adjust_label: the label is not extended by f\"{marker}{{workdir}}\": {_u(st)}")
    if "\0" in marker or not marker:
        raise TranslatorError("Step.adjust_label: unusable marker")
    # command_and_workdir splits at the same marker
    cw = find_function(step_tree, "command_and_workdir", cls="Step")
    body = body_without_docstring(cw)
    if not (len(body) == 2 and _u(body[0]) == f"parts = self.label.split({marker!r}, maxsplit=1)"
            and _u(body[1]) == f"return (parts[0], Path(parts[1] if len(parts) == 2 else {default!r}))"):
        raise TranslatorError("Step.command_and_workdir does not split the label at the marker of adjust_label")
    # define_step derives the label from command and workdir
    ds = find_function(wf_tree, "define_step", cls="Workflow")
    if not any(isinstance(n, ast.Assign) and _u(n) == "step_label = Step.adjust_label(command, workdir)"
               for n in ast.walk(ds)):
        raise TranslatorError("Workflow.define_step: `step_label = Step.adjust_label(command, workdir)` not found")
    creates = [n for n in ast.walk(ds) if isinstance(n, ast.Call) and _u(n.func) in ("self.create", "self.try_recycle")]
    for c in creates:
        kws = {k.arg: _u(k.value) for k in c.keywords}
        if not (len(c.args) == 3 and _u(c.args[0]) == "Step" and _u(c.args[2]) == "command"
                and kws.get("workdir") == "workdir" and kws.get("shell") == "shell"):
            raise TranslatorError(f"Workflow.define_step: {_u(c.func)} is not called with command, workdir=workdir, "
                                  "shell=shell")
    if len(creates) != 2:
        raise TranslatorError(f"Workflow.define_step: {len(creates)} create/try_recycle calls (model: 2)")
    return marker, default


def check_step_accessors(step_tree):
    us = body_without_docstring(find_function(step_tree, "uses_shell", cls="Step"))
    if not (len(us) == 2 and "SELECT shell FROM step WHERE node = ?" in _u(us[0]) and _u(us[1]) == "return bool(row[0])"):
        raise TranslatorError("Step.uses_shell is not `return bool(<step.shell>)`")
    go = body_without_docstring(find_function(step_tree, "get_env_overrides", cls="Step"))
    if not (len(go) == 2 and "SELECT env_overrides FROM step WHERE node = ?" in _u(go[0])
            and _u(go[1]) == "return {} if row[0] is None else json.loads(row[0])"):
        raise TranslatorError("Step.get_env_overrides is not `{} if NULL else json.loads(column)`")
    so = body_without_docstring(find_function(step_tree, "set_env_overrides", cls="Step"))
    if not (len(so) == 2 and _u(so[0]) == "value = None if not env_overrides else json.dumps(env_overrides)"
            and "UPDATE step SET env_overrides = ? WHERE node = ?" in _u(so[1])):
        raise TranslatorError("Step.set_env_overrides is not `NULL if empty else json.dumps(dict)`")
    ed = find_function(step_tree, "env_deps", cls="Step")
    if "SELECT name FROM env_var WHERE node = ?" not in _u(ed):
        raise TranslatorError("Step.env_deps does not read the env_var rows of the step")


def check_job_plumbing(exe_tree):
    """inp_hashes / env_deps of _compute_inp_step_hash: Scheduler._derive_job -> job -> executor."""
    nr = find_function(exe_tree, "_new_run", cls="Executor")
    if _params(nr)[:5] != ["self", "job_i", "step", "inp_hashes", "env_deps"]:
        raise TranslatorError("_new_run signature changed")
    if not any(isinstance(n, ast.Call) and _u(n) == "self._compute_inp_step_hash(run, inp_hashes, env_deps)"
               for n in ast.walk(nr)):
        raise TranslatorError("_new_run does not call self._compute_inp_step_hash(run, inp_hashes, env_deps)")
    if not any(isinstance(n, ast.Assign) and _u(n) == "run = Run(step, job_i=job_i)" for n in ast.walk(nr)):
        raise TranslatorError("_new_run does not create `Run(step, job_i=job_i)`")
    callers = set()
    cls = next(n for n in ast.walk(exe_tree) if isinstance(n, ast.ClassDef) and n.name == "Executor")
    for fn in cls.body:
        if not isinstance(fn, (ast.FunctionDef, ast.AsyncFunctionDef)):
            continue
        for n in ast.walk(fn):
            if isinstance(n, ast.Call) and isinstance(n.func, ast.Attribute):
                if n.func.attr == "_new_run":
                    if _u(n) != "self._new_run(job_i, step, inp_hashes, env_deps)" \
                            or not {"inp_hashes", "env_deps"} <= set(_params(fn)):
                        raise TranslatorError(f"{fn.name}: unexpected call {_u(n)}")
                    if any(isinstance(m, (ast.Assign, ast.AugAssign)) and any(
                            _name(t) and t.id in ("inp_hashes", "env_deps")
                            for t in (m.targets if isinstance(m, ast.Assign) else [m.target])) for m in ast.walk(fn)):
                        raise TranslatorError(f"{fn.name}: rebinds inp_hashes / env_deps")
                    callers.add(fn.name)
                if n.func.attr == "_compute_inp_step_hash" and fn.name != "_new_run":
                    raise TranslatorError(f"{fn.name}: calls _compute_inp_step_hash (model: only _new_run)")
    if callers != {"validate_dynamic_job", "try_skip_job", "execute_job"}:
        raise TranslatorError(f"_new_run is called from {sorted(callers)}")
    job_tree = parse_module(JOB)
    calls = [_u(n) for n in ast.walk(job_tree) if isinstance(n, ast.Call) and isinstance(n.func, ast.Attribute)
             and n.func.attr in ("validate_dynamic_job", "try_skip_job", "execute_job")]
    for c in calls:
        if "self.job_i, self.step, self.inp_hashes, self.env_deps" not in c.replace("\n", " "):
            raise TranslatorError(f"job.py: unexpected call {c[:100]}")
    if len(calls) != 3:
        raise TranslatorError(f"job.py: {len(calls)} calls of the executor's job functions (model: 3)")
    dj = find_function(parse_module(SCHED), "_derive_job", cls="Scheduler")
    txt = [_u(n) for n in ast.walk(dj) if isinstance(n, ast.Assign)]
    for want in ("env_deps = list(step.env_deps())", "inp_hashes[path] = FileHash.from_json(hash_value)",
                 "job = RunJob(step, inp_hashes, env_deps, step_hash, job_i=job_i)",
                 "job = ValidateDynamicJob(step, inp_hashes, env_deps, step_hash, job_i=job_i)"):
        if want not in txt:
            raise TranslatorError(f"Scheduler._derive_job: `{want}` not found")


def check_compute_hashes(hash_tree):
    cls = next((n for n in ast.walk(hash_tree) if isinstance(n, ast.ClassDef) and n.name == "HashComputeResult"), None)
    if cls is None:
        raise TranslatorError("class HashComputeResult not found")
    fields = [s.target.id for s in cls.body if isinstance(s, ast.AnnAssign) and isinstance(s.target, ast.Name)]
    if fields != ["messages", "new_hashes", "all_hashes"]:
        raise TranslatorError(f"HashComputeResult fields are {fields}")
    for fname, mp, allv in (("compute_inp_hashes", "inp_hashes", "all_inp_hashes"),
                            ("compute_out_hashes", "out_hashes", "all_out_hashes")):
        fn = find_function(hash_tree, fname)
        body = body_without_docstring(fn)
        loops = [s for s in body if isinstance(s, ast.For)]
        if len(loops) != 1 or _u(loops[0].iter) != f"sorted({mp})" or not _name(loops[0].target, "path") \
                or loops[0].orelse:
            raise TranslatorError(f"{fname}: not one loop `for path in sorted({mp})`")
        want = [f"old_file_hash = {mp}[path]", "new_file_hash = old_file_hash.refreshed(path, cancel_event)",
                f"{allv}[path] = new_file_hash"]
        if fname == "compute_inp_hashes":
            # the head may wrap refreshed in try/except (an unreadable input counts as changed): gen_hash_skip.py
            from .gen_hash_skip import parse_inp_loop_head
            parse_inp_loop_head(loops[0].body)
        else:
            top = [_u(s) for s in loops[0].body]
            if top[:3] != want:
                raise TranslatorError(f"{fname}: the loop does not start with {want}")
        for n in ast.walk(fn):
            if isinstance(n, (ast.Break, ast.Continue)):
                raise TranslatorError(f"{fname}: break/continue in the loop")
            if isinstance(n, (ast.Assign, ast.Delete)) and allv in _u(n) and _u(n) not in (want[2], f"{allv} = {{}}"):
                raise TranslatorError(f"{fname}: `{allv}` is modified elsewhere: {_u(n)}")
            if isinstance(n, ast.Call) and isinstance(n.func, ast.Attribute) and _name(n.func.value, allv):
                raise TranslatorError(f"{fname}: `{allv}` is modified by {_u(n)}")
        ret = body[-1]
        if not (isinstance(ret, ast.Return) and isinstance(ret.value, ast.Call) and _name(ret.value.func, "HashComputeResult")
                and len(ret.value.args) == 3 and not ret.value.keywords and _name(ret.value.args[2], allv)):
            raise TranslatorError(f"{fname}: does not return HashComputeResult(.., .., {allv})")
    # an unknown input never reaches from_inp: it is a message or a ConsistencyError
    ci = _u(find_function(hash_tree, "compute_inp_hashes"))
    for frag in ("if new_file_hash != old_file_hash:", "if new_file_hash.is_unknown:", "messages.append(",
                 "elif old_file_hash.is_unknown:", "raise ConsistencyError("):
        if frag not in ci:
            raise TranslatorError(f"compute_inp_hashes: `{frag}` not found")
    cb = body_without_docstring(find_function(hash_tree, "compute_both_hashes"))
    if not (len(cb) == 1 and _u(cb[0]) == "return (compute_inp_hashes(inp_hashes, cancel_event), "
                                          "compute_out_hashes(out_hashes, cancel_event))"):
        raise TranslatorError("compute_both_hashes is not (compute_inp_hashes(..), compute_out_hashes(..))")


# ---------------------------------------------------------------------------------------------


def generate():
    exe_tree = parse_module(EXE)
    step_tree = parse_module(STEP)
    sites = enumerate_sites()
    marker, default = translate_adjust_label(step_tree, parse_module(WF))
    base_env = check_base_env(exe_tree)
    check_step_accessors(step_tree)
    check_job_plumbing(exe_tree)
    check_compute_hashes(parse_module(HASH))
    fn_inp = find_function(exe_tree, "_compute_inp_step_hash", cls="Executor")
    fn_full = find_function(exe_tree, "_compute_full_step_hash", cls="Executor")
    fn_out = find_function(exe_tree, "_compute_out_step_hash", cls="Executor")
    s_inp = translate_from_inp_site(fn_inp, sites[("_compute_inp_step_hash", "from_inp")], exe_tree)
    s_full = translate_from_inp_site(fn_full, sites[("_compute_full_step_hash", "from_inp")], exe_tree)
    translate_with_out_site(fn_out, sites[("_compute_out_step_hash", "with_out_hashes")])
    translate_with_out_site(fn_full, sites[("_compute_full_step_hash", "with_out_hashes")])
    # in _compute_full_step_hash the output digest is computed on the result of from_inp
    full_calls = [_u(n) for n in ast.walk(fn_full) if isinstance(n, ast.Assign) and _name(n.targets[0], "step_hash")]
    if not (len(full_calls) == 3 and full_calls[0].startswith("step_hash = StepHash.from_inp(")
            and full_calls[1] == "step_hash = step_hash.with_out_hashes(out_result.all_hashes)"
            and full_calls[2] == "step_hash = None"):
        raise TranslatorError("_compute_full_step_hash: step_hash is not from_inp(...) then with_out_hashes(...)")

    def site(prefix, info, comment):
        return [
            f"(* {comment} *)",
            f"Definition {prefix}_label (s : syscfg) : str := adjust_label (sys_command s) (sys_workdir s).",
            f"Definition {prefix}_inps (s : syscfg) : list (str * fsig) := sys_inps s.",
            f"Definition {prefix}_envs (s : syscfg) : list (str * option str) :=",
            f"  map (fun name => (name, {info['envval']})) (sys_env_deps s).",
            f"Definition {prefix}_shell (s : syscfg) : bool := sys_shell s.",
            f"Definition {prefix}_ovrs (s : syscfg) : list (str * str) := sys_ovrs s.",
            f"Definition {prefix}_cfg (s : syscfg) : cfg :=",
            f"  mk_cfg ({prefix}_label s) ({prefix}_shell s) ({prefix}_inps s) ({prefix}_envs s) ({prefix}_ovrs s).",
        ]

    lines = [
        "(* GENERATED by translator/gen_hash_sites.py from /repo/stepup/core/{executor,step,hash,scheduler,job,workflow}.py",
        "   -- do not edit *)",
        "From Coq Require Import List NArith Bool.",
        "From SV Require Import lib.Bytes lib.KeySort model.HashTypes model.HashSiteTypes.",
        "Import ListNotations.",
        "Open Scope N_scope.",
        "(* step.py Step.adjust_label / command_and_workdir *)",
        f"Definition wd_marker : str := {coq_bytes(marker.encode())}.  (* {marker!r} *)",
        f"Definition wd_default : str := {coq_bytes(default.encode())}.  (* {default!r} *)",
        "Definition adjust_label (command workdir : str) : str :=",
        "  if negb (str_eqb workdir wd_default) then command ++ wd_marker ++ workdir else command.",
        "Definition label_rejected (command : str) : bool := has_infix wd_marker command.  (* raise ValueError *)",
        "(* executor.py Executor.base_env; _run_command starts the environment of the command from it *)",
        f"Definition base_env (s : syscfg) : list (str * str) := {base_env}.",
        "Definition run_env_base (s : syscfg) : list (str * str) := base_env s.",
    ]
    lines += site("site_inp", s_inp, "Executor._compute_inp_step_hash: StepHash.from_inp(run.step.label, result.all_hashes, "
                                    "<env map>, shell=.., env_overrides=..)")
    lines += site("site_full", s_full, "Executor._compute_full_step_hash: the same call after the command ran")
    lines += [
        "(* Executor._compute_out_step_hash / _compute_full_step_hash: step_hash.with_out_hashes(<result>.all_hashes) *)",
        "Definition site_out_outs (s : syscfg) : list (str * fsig) := sys_outs s.",
        "Definition site_full_outs (s : syscfg) : list (str * fsig) := sys_outs s.",
        "",
    ]
    facts = {"wd_marker": marker, "wd_default": default,
             "env_value_inp": s_inp["envval"], "env_value_full": s_full["envval"],
             "sites": sorted(f"{fn}:{k}" for fn, k in sites), "guards": [s_inp["guard"], s_full["guard"]],
             "inps_from": [s_inp["inps_from"], s_full["inps_from"]]}
    return "\n".join(lines), facts


if __name__ == "__main__":
    print(generate()[0])
