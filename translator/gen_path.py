"""Translator for C20: stepup/core/path.py (get_affixes, apply_affixes, get_stepup_root, translate,
translate_back), api.py `_keep_affixes`, the ROOT/HERE expressions of Executor._run_command and the
call sites of translate / translate_back, as Gallina over the lib/PosixPath.v primitives.

A small whitelisting Python-AST-to-Gallina translator.  Everything that is not recognised raises
TranslatorError (fail closed).  Mechanism per function: ALL of the functions above are translated
from their AST (no fingerprint fallback is in use).

Mapping (trusted):
  coerce_str(x), coerce_path(x), Path(x), str(x), os.fspath(x)   -> x   (arguments are str)
  a / b (path.Path.__truediv__)     -> join2 a b        x.normpath()   -> normpath x
  x.isabs()                         -> isabs x          x.absolute()   -> abspath cwd x
  x.relpath(y) / x.relpath()        -> plib_relpath cwd x y / plib_relpath cwd x "."
  x.startswith(y | (c1, c2))        -> starts_with      x.endswith(c)  -> ends_with
  x[:-1] -> removelast x            a + b -> a ++ b     a != b / a == b -> str_eqb
  os.getenv(NAME, d) -> getenv env NAME d   (d is evaluated eagerly in Python; it is pure here)
  os.getcwd(), Path.cwd() -> cwd    raise PathError(...) -> Raise <n-th raise of the function>
An `if` without `else` is translated by duplicating the continuation into both branches.
"""

from __future__ import annotations

import ast
import re

from .astutil import (TranslatorError, body_without_docstring, coq_str, find_function,
                      functions_with_parents, parse_module)

CORE = "stepup/core"
IDENTITY_CALLS = {"coerce_str", "coerce_path", "Path", "str"}
COQ_RESERVED = {"in", "let", "if", "then", "else", "match", "with", "end", "fun", "forall", "at", "as",
                "return", "using", "where", "fix", "cofix", "for", "Type", "Prop", "Set", "exists"}


def lit(s: str) -> str:
    return f"({coq_str(s)} : str)" if s else "([] : str)"


class FuncTranslator:
    """Translate one function definition into a Gallina `Definition`."""

    def __init__(self, fn, *, known, rel):
        self.fn = fn
        self.known = known          # name -> dict(env=bool, raising=bool, nargs=int)
        self.rel = rel
        self.uses_env = False
        self.bound: set[str] = set()
        self.fparams: set[str] = set()   # parameters that are functions (Callable)
        raises = sorted((n for n in ast.walk(fn) if isinstance(n, ast.Raise)), key=lambda n: (n.lineno, n.col_offset))
        self.raise_site = {id(n): i + 1 for i, n in enumerate(raises)}
        self.raising = bool(raises)
        self.raise_classes: list[str] = []
        # leading literal text of the message of each raise site (lets the harness tell which site fired)
        self.raise_msgs = []
        for n in raises:
            msg = ""
            if isinstance(n.exc, ast.Call) and n.exc.args:
                a0 = n.exc.args[0]
                if isinstance(a0, ast.Constant) and isinstance(a0.value, str):
                    msg = a0.value
                elif isinstance(a0, ast.JoinedStr) and a0.values and isinstance(a0.values[0], ast.Constant):
                    msg = a0.values[0].value
            self.raise_msgs.append(msg)

    def err(self, node, msg):
        ln = getattr(node, "lineno", "?")
        raise TranslatorError(f"{self.rel}:{self.fn.name}:{ln}: {msg}")

    # -- expressions -----------------------------------------------------------------------------
    def name(self, node):
        if node.id not in self.bound:
            self.err(node, f"unbound or unsupported name {node.id!r}")
        if node.id in COQ_RESERVED:
            self.err(node, f"variable name {node.id!r} is reserved in Gallina")
        return node.id

    def expr(self, e) -> str:
        if isinstance(e, ast.Name):
            return self.name(e)
        if isinstance(e, ast.Constant):
            if isinstance(e.value, str):
                return lit(e.value)
            self.err(e, f"unsupported constant {e.value!r}")
        if isinstance(e, ast.BinOp):
            if isinstance(e.op, ast.Add):
                return f"({self.expr(e.left)} ++ {self.expr(e.right)})"
            if isinstance(e.op, ast.Div):
                return f"(join2 {self.expr(e.left)} {self.expr(e.right)})"
            self.err(e, f"unsupported operator {type(e.op).__name__}")
        if isinstance(e, ast.UnaryOp) and isinstance(e.op, ast.Not):
            return f"(negb {self.expr(e.operand)})"
        if isinstance(e, ast.BoolOp):
            op = "andb" if isinstance(e.op, ast.And) else "orb"
            parts = [self.expr(v) for v in e.values]
            out = parts[-1]
            for p in reversed(parts[:-1]):
                out = f"({op} {p} {out})"
            return out
        if isinstance(e, ast.Compare):
            if len(e.ops) != 1:
                self.err(e, "chained comparison")
            a, b = self.expr(e.left), self.expr(e.comparators[0])
            if isinstance(e.ops[0], ast.NotEq):
                return f"(negb (str_eqb {a} {b}))"
            if isinstance(e.ops[0], ast.Eq):
                return f"(str_eqb {a} {b})"
            self.err(e, f"unsupported comparison {type(e.ops[0]).__name__}")
        if isinstance(e, ast.IfExp):
            return f"(if {self.expr(e.test)} then {self.expr(e.body)} else {self.expr(e.orelse)})"
        if isinstance(e, ast.Subscript):
            s = e.slice
            if (isinstance(s, ast.Slice) and s.lower is None and s.step is None
                    and isinstance(s.upper, ast.UnaryOp) and isinstance(s.upper.op, ast.USub)
                    and isinstance(s.upper.operand, ast.Constant) and s.upper.operand.value == 1):
                return f"(removelast {self.expr(e.value)})"
            self.err(e, "unsupported subscript (only x[:-1])")
        if isinstance(e, ast.Tuple):
            return "(" + ", ".join(self.expr(x) for x in e.elts) + ")"
        if isinstance(e, ast.Call):
            return self.call(e)
        self.err(e, f"unsupported expression {type(e).__name__}")

    def call(self, e: ast.Call) -> str:
        if e.keywords:
            self.err(e, "keyword arguments are not supported")
        f = e.func
        args = e.args
        if any(isinstance(a, ast.Starred) for a in args):
            self.err(e, "starred argument")
        if isinstance(f, ast.Name):
            if f.id in IDENTITY_CALLS:
                if len(args) != 1:
                    self.err(e, f"{f.id}() with {len(args)} arguments")
                return self.expr(args[0])
            if f.id in self.fparams:
                return "(" + " ".join([f.id] + [self.expr(a) for a in args]) + ")"
            if f.id in self.known:
                k = self.known[f.id]
                if len(args) != k["nargs"]:
                    self.err(e, f"{f.id}() called with {len(args)} arguments, definition has {k['nargs']} "
                                "(default arguments must be passed explicitly in translated code)")
                pre = []
                if k["env"]:
                    self.uses_env = True
                    pre = ["cwd", "env"]
                return "(" + " ".join([f.id] + pre + [self.expr(a) for a in args]) + ")"
            self.err(e, f"call of unknown function {f.id!r}")
        if isinstance(f, ast.Attribute):
            # module functions
            if isinstance(f.value, ast.Name) and f.value.id == "os" and "os" not in self.bound:
                if f.attr == "getenv":
                    if len(args) != 2 or not (isinstance(args[0], ast.Constant) and isinstance(args[0].value, str)):
                        self.err(e, "os.getenv must be os.getenv(<literal>, <default>)")
                    self.uses_env = True
                    return f"(getenv env {lit(args[0].value)} {self.expr(args[1])})"
                if f.attr == "getcwd" and not args:
                    self.uses_env = True
                    return "cwd"
                if f.attr == "fspath" and len(args) == 1:
                    return self.expr(args[0])
                self.err(e, f"unsupported os.{f.attr}")
            if isinstance(f.value, ast.Name) and f.value.id == "Path" and "Path" not in self.bound:
                if f.attr == "cwd" and not args:
                    self.uses_env = True
                    return "cwd"
                if f.attr == "normpath" and len(args) == 1:
                    return f"(normpath {self.expr(args[0])})"
                self.err(e, f"unsupported Path.{f.attr}")
            obj = self.expr(f.value)
            if f.attr == "normpath" and not args:
                return f"(normpath {obj})"
            if f.attr == "isabs" and not args:
                return f"(isabs {obj})"
            if f.attr == "absolute" and not args:
                self.uses_env = True
                return f"(abspath cwd {obj})"
            if f.attr == "relpath" and len(args) <= 1:
                self.uses_env = True
                start = self.expr(args[0]) if args else lit(".")
                return f"(plib_relpath cwd {obj} {start})"
            if f.attr in ("startswith", "endswith") and len(args) == 1:
                fn = "starts_with" if f.attr == "startswith" else "ends_with"
                a = args[0]
                if isinstance(a, ast.Tuple):
                    if not a.elts or not all(isinstance(x, ast.Constant) and isinstance(x.value, str) for x in a.elts):
                        self.err(e, f"{f.attr} with a non-literal tuple")
                    out = f"({fn} {obj} {lit(a.elts[-1].value)})"
                    for x in reversed(a.elts[:-1]):
                        out = f"(orb ({fn} {obj} {lit(x.value)}) {out})"
                    return out
                return f"({fn} {obj} {self.expr(a)})"
            self.err(e, f"unsupported method .{f.attr}()")
        self.err(e, "unsupported call")

    # -- statements ------------------------------------------------------------------------------
    @staticmethod
    def terminates(stmts) -> bool:
        if not stmts:
            return False
        last = stmts[-1]
        if isinstance(last, (ast.Return, ast.Raise)):
            return True
        if isinstance(last, ast.If) and last.orelse:
            return FuncTranslator.terminates(last.body) and FuncTranslator.terminates(last.orelse)
        return False

    def block(self, stmts, depth=1) -> str:
        ind = "  " * depth
        if not stmts:
            self.err(self.fn, "control reaches the end of the function without return")
        s, rest = stmts[0], list(stmts[1:])
        if isinstance(s, ast.Return):
            if rest:
                self.err(s, "statements after return")
            if s.value is None:
                self.err(s, "bare return")
            v = s.value
            if self.raising or self.tail_raising(v):
                if self.tail_raising(v):
                    return ind + self.expr(v)
                return ind + f"Ok {self.expr(v)}"
            return ind + self.expr(v)
        if isinstance(s, ast.Raise):
            if rest:
                self.err(s, "statements after raise")
            exc = s.exc
            if not (isinstance(exc, ast.Call) and isinstance(exc.func, ast.Name)):
                self.err(s, "raise of something that is not `ExceptionClass(...)`")
            self.raise_classes.append(exc.func.id)
            return ind + f"Raise {self.raise_site[id(s)]}"
        if isinstance(s, ast.Assign):
            if len(s.targets) != 1:
                self.err(s, "multiple assignment targets")
            t = s.targets[0]
            if isinstance(t, ast.Name):
                if isinstance(s.value, ast.Call) and self.tail_raising(s.value):
                    self.err(s, "call of a raising function outside tail position")
                v = self.expr(s.value)
                self.bound.add(t.id)
                nm = self.name(t)
                return ind + f"let {nm} := {v} in\n" + self.block(rest, depth)
            if isinstance(t, ast.Tuple) and all(isinstance(x, ast.Name) for x in t.elts):
                if self.tail_raising(s.value):
                    self.err(s, "call of a raising function outside tail position")
                v = self.expr(s.value)
                for x in t.elts:
                    self.bound.add(x.id)
                names = ", ".join(self.name(x) for x in t.elts)
                return ind + f"let '({names}) := {v} in\n" + self.block(rest, depth)
            self.err(s, "unsupported assignment target")
        if isinstance(s, ast.If):
            saved = set(self.bound)
            c = self.expr(s.test)
            then = list(s.body) if self.terminates(s.body) else list(s.body) + rest
            self.bound = set(saved)
            tb = self.block(then, depth + 1)
            orelse = list(s.orelse)
            els = orelse if (orelse and self.terminates(orelse)) else orelse + rest
            self.bound = set(saved)
            eb = self.block(els, depth + 1)
            # variables bound in only one branch are not visible afterwards (the continuation was
            # translated inside each branch with its own scope)
            self.bound = saved
            return f"{ind}if {c}\n{ind}then (\n{tb})\n{ind}else (\n{eb})"
        if isinstance(s, ast.Expr) and isinstance(s.value, ast.Constant) and isinstance(s.value.value, str):
            return self.block(rest, depth)
        self.err(s, f"unsupported statement {type(s).__name__}")

    def tail_raising(self, v) -> bool:
        return (isinstance(v, ast.Call) and isinstance(v.func, ast.Name) and v.func.id in self.known
                and self.known[v.func.id]["raising"])

    def calls_raising(self) -> bool:
        return any(self.tail_raising(n) for n in ast.walk(self.fn) if isinstance(n, ast.Call))

    # -- whole function --------------------------------------------------------------------------
    def translate(self, coq_name=None):
        fn = self.fn
        a = fn.args
        if a.vararg or a.kwarg or a.kwonlyargs or a.posonlyargs:
            self.err(fn, "unsupported parameter kinds")
        if fn.decorator_list:
            self.err(fn, "decorated function")
        params = []
        for p in a.args:
            ann = ast.unparse(p.annotation) if p.annotation is not None else ""
            if ann.startswith("Callable"):
                if ann.replace(" ", "") != "Callable[[Path],Path]":
                    self.err(fn, f"unsupported callable annotation {ann}")
                self.fparams.add(p.arg)
                params.append(f"({p.arg} : str -> str)")
            else:
                if ann not in ("StrPath", "str", "Path", "str | Path"):
                    self.err(fn, f"parameter {p.arg} has unsupported annotation {ann!r}")
                params.append(f"({p.arg} : str)")
            self.bound.add(p.arg)
        defaults = {}
        for p, d in zip(a.args[len(a.args) - len(a.defaults):], a.defaults):
            if not (isinstance(d, ast.Constant) and isinstance(d.value, str)):
                self.err(fn, "non-literal default argument")
            defaults[p.arg] = d.value
        if self.calls_raising():
            self.raising = True
        body = self.block(body_without_docstring(fn))
        name = coq_name or fn.name
        pre = "(cwd : str) (env : environ) " if self.uses_env else ""
        text = f"Definition {name} {pre}{' '.join(params)} :=\n{body}.\n"
        info = {"env": self.uses_env, "raising": self.raising, "nargs": len(a.args), "defaults": defaults,
                "raise_classes": self.raise_classes, "nraise": len(self.raise_site),
                "raise_msgs": self.raise_msgs}
        return text, info


def translate_exec_env():
    """The two assignments env["ROOT"] = ..., env["HERE"] = ... of Executor._run_command."""
    rel = f"{CORE}/executor.py"
    tree = parse_module(rel)
    fn = find_function(tree, "_run_command", cls="Executor")
    found = {}
    cwd_arg = None
    for node in ast.walk(fn):
        if isinstance(node, ast.Assign) and len(node.targets) == 1:
            t = node.targets[0]
            if (isinstance(t, ast.Subscript) and isinstance(t.value, ast.Name) and t.value.id == "env"
                    and isinstance(t.slice, ast.Constant) and t.slice.value in ("ROOT", "HERE")):
                if t.slice.value in found:
                    raise TranslatorError(f"{rel}: env[{t.slice.value!r}] assigned twice")
                found[t.slice.value] = node.value
        if isinstance(node, ast.Call) and isinstance(node.func, ast.Name) and node.func.id == "launch_command":
            kw = {k.arg: k.value for k in node.keywords}
            if "cwd" not in kw or "env" not in kw:
                raise TranslatorError(f"{rel}: launch_command without cwd=/env= keywords")
            if not (isinstance(kw["cwd"], ast.Name) and isinstance(kw["env"], ast.Name) and kw["env"].id == "env"):
                raise TranslatorError(f"{rel}: launch_command cwd/env are not plain names")
            cwd_arg = kw["cwd"].id
    if set(found) != {"ROOT", "HERE"}:
        raise TranslatorError(f"{rel}: env['ROOT'] / env['HERE'] assignments not found")
    if cwd_arg != "workdir":
        raise TranslatorError(f"{rel}: the step is not launched with cwd=workdir")
    out, exprs = [], {}
    for key in ("ROOT", "HERE"):
        dummy = ast.parse("def f(workdir: str):\n    return 0\n").body[0]
        dummy.name = f"_run_command[{key}]"
        dummy.body = [ast.Return(value=found[key], lineno=found[key].lineno, col_offset=0)]
        ft = FuncTranslator(dummy, known={}, rel=rel)
        text, info = ft.translate(coq_name=f"exec_{key}")
        if not info["env"]:
            raise TranslatorError(f"{rel}: env[{key!r}] does not depend on the working directory of the director")
        out.append(text)
        exprs[key] = ast.unparse(found[key])
    return "".join(out), exprs


def scan_call_sites():
    """Every call of translate / translate_back / _keep_affixes in stepup/core, with its shape."""
    from .astutil import REPO
    sites = []
    for path in sorted((REPO / CORE).glob("*.py")):
        rel = f"{CORE}/{path.name}"
        tree = parse_module(rel)
        for qual, fn in functions_with_parents(tree):
            if path.name == "path.py" and qual in ("translate", "translate_back"):
                continue
            inner = [f2 for q, f2 in functions_with_parents(tree) if q.startswith(qual + ".")]
            skip = {id(n) for f2 in inner for n in ast.walk(f2)}
            for node in ast.walk(fn):
                if id(node) in skip or not isinstance(node, ast.Call) or not isinstance(node.func, ast.Name):
                    continue
                nm = node.func.id
                if nm in ("translate", "translate_back"):
                    if node.keywords or not 1 <= len(node.args) <= 2:
                        raise TranslatorError(f"{rel}:{qual}:{node.lineno}: unrecognised call shape of {nm}")
                    shape = "Direct1" if len(node.args) == 1 else "Direct2"
                    sites.append((f"{path.name}:{qual}:{nm}", nm, shape))
                elif nm == "_keep_affixes":
                    if node.keywords or len(node.args) != 2:
                        raise TranslatorError(f"{rel}:{qual}:{node.lineno}: unrecognised call shape of _keep_affixes")
                    tr = ast.unparse(node.args[1])
                    if tr not in ("translate", "translate_back", "Path.normpath"):
                        raise TranslatorError(f"{rel}:{qual}:{node.lineno}: _keep_affixes with transform {tr}")
                    sites.append((f"{path.name}:{qual}:_keep_affixes", tr.replace("Path.", ""), "KeepAffixes"))
        # any other mention of translate / translate_back (passing the function around) must be one of
        # the shapes above: the callee of a call or the second argument of _keep_affixes
        allowed = set()
        for node in ast.walk(tree):
            if isinstance(node, ast.Call) and isinstance(node.func, ast.Name):
                if node.func.id in ("translate", "translate_back"):
                    allowed.add(id(node.func))
                elif node.func.id == "_keep_affixes" and len(node.args) == 2:
                    allowed.add(id(node.args[1]))
        for node in ast.walk(tree):
            # module-qualified uses (`path.translate(x)`, `from . import path as p; p.translate_back`) would
            # escape the list of direct calls: fail closed (bytes/str.translate takes a table and is told
            # apart by its receiver not being a module alias of stepup.core.path)
            if isinstance(node, ast.Attribute) and node.attr in ("translate", "translate_back"):
                recv = ast.unparse(node.value)
                if node.attr == "translate_back" or re.fullmatch(r"(\w+\.)*(path|_path|pathmod|stepup\.core\.path)", recv):
                    raise TranslatorError(f"{rel}:{node.lineno}: {recv}.{node.attr} is used through a module attribute")
        for node in ast.walk(tree):
            if (isinstance(node, ast.Name) and node.id in ("translate", "translate_back")
                    and id(node) not in allowed):
                raise TranslatorError(f"{rel}:{node.lineno}: {node.id} is used other than by a direct call")
    seen, uniq = set(), []
    for s in sites:
        if s not in seen:
            seen.add(s)
            uniq.append(s)
    return uniq


NORMALIZE_TARGETS_LOOP = [
    "if raw_target == '':\n    raise ToolError('A target cannot be an empty string.')",
    "is_dir_target = raw_target.endswith(os.sep)",
    "target_abs = Path(raw_target).absolute()",
    "target_rel = target_abs.relpath(stepup_root).normpath()",
    "if is_dir_target:\n    target_dirs.append(target_rel / '')\nelse:\n    targets.append(target_rel)",
]
# calls that change the working directory of the process
_CHDIR_ATTRS = {"cd", "chdir"}
KNOWN_TARGET_CALLERS = {"tui.py:_async_build"}


def target_call_site_facts():
    """`stepup build TARGET...`: tui._normalize_targets resolves every raw target against the CURRENT working
    directory (`Path(raw).absolute()`), so it designates the file the user named only while the process is still
    in the directory the command was typed in.  Every call site in stepup/core is listed with one boolean:
    the call precedes (in source order within its function) every statement that changes the working directory
    (`<x>.cd()`, `os.chdir(...)`, `contextlib.chdir(...)`).  The boolean is GENERATED (not checked here): a call
    moved behind the `cd` makes it false and C20_cli_target_designates_same stops holding.  Fail closed: a use of
    _normalize_targets other than a direct call, a caller that is not known, the per-target statements of
    _normalize_targets changed."""
    from .astutil import REPO
    tui = parse_module(f"{CORE}/tui.py")
    fn = find_function(tui, "_normalize_targets")
    if ast.unparse(fn.args) != "raw_targets: list[str], stepup_root: Path":
        raise TranslatorError(f"tui._normalize_targets: signature changed: {ast.unparse(fn.args)}")
    loops = [n for n in body_without_docstring(fn) if isinstance(n, ast.For)]
    if len(loops) != 1 or ast.unparse(loops[0].target) != "raw_target" or ast.unparse(loops[0].iter) != "raw_targets":
        raise TranslatorError("tui._normalize_targets: expected one loop over raw_targets")
    got = [ast.unparse(st) for st in loops[0].body]
    if got != NORMALIZE_TARGETS_LOOP:
        raise TranslatorError(f"tui._normalize_targets: per-target statements changed: {got}")
    sites = []
    for path in sorted((REPO / CORE).glob("*.py")):
        rel = f"{CORE}/{path.name}"
        tree = tui if path.name == "tui.py" else parse_module(rel)
        direct = set()
        for qual, f2 in functions_with_parents(tree):
            inner = [f3 for q, f3 in functions_with_parents(tree) if q.startswith(qual + ".")]
            skip = {id(n) for f3 in inner for n in ast.walk(f3)}
            calls, chdirs = [], []
            for node in ast.walk(f2):
                if id(node) in skip or not isinstance(node, ast.Call):
                    continue
                if isinstance(node.func, ast.Name) and node.func.id == "_normalize_targets":
                    calls.append(node)
                    direct.add(id(node.func))
                elif isinstance(node.func, ast.Attribute) and node.func.attr in _CHDIR_ATTRS:
                    chdirs.append(node)
            for c in calls:
                name = f"{path.name}:{qual}"
                if name not in KNOWN_TARGET_CALLERS:
                    raise TranslatorError(f"{rel}:{c.lineno}: new caller of _normalize_targets: {qual}")
                if [ast.unparse(a) for a in c.args] != ["args.targets", "stepup_root"] or c.keywords:
                    raise TranslatorError(f"{rel}:{c.lineno}: _normalize_targets called with {ast.unparse(c)}")
                before = all((c.lineno, c.col_offset) < (d.lineno, d.col_offset) for d in chdirs)
                sites.append((name, before, [ast.unparse(d) for d in chdirs]))
        for node in ast.walk(tree):
            if isinstance(node, ast.Name) and node.id == "_normalize_targets" and id(node) not in direct:
                raise TranslatorError(f"{rel}:{node.lineno}: _normalize_targets is used other than by a direct call")
            if isinstance(node, ast.Attribute) and node.attr == "_normalize_targets":
                raise TranslatorError(f"{rel}:{node.lineno}: _normalize_targets is used through an attribute")
    if not sites:
        raise TranslatorError("no call site of tui._normalize_targets found")
    return sites


# RPC methods whose RESULT the step-side API uses -> fields of the result that hold root-relative paths.
# (StepInfo.workdir is documented as root-relative and handed on as it is.)
RPC_RESULT_PATH_FIELDS = {"get_step_info": ["inp", "out", "vol"], "amend_step": []}


def rpc_back_facts():
    """Every path the step-side API (api.py) receives from the director must be mapped back to the step's
    working directory by translate_back.  All `get_rpc_client().call.<method>(...)` calls of api.py are scanned:
    a call whose value is discarded hands nothing back; a call whose value is used must be a known method
    (fail closed on a new one) and, for each path field of its result, the function must re-assign
    `<var>.<field> = sorted(translate_back(x) for x in <var>.<field>)` (or the unsorted list / generator forms).
    The mapping found is GENERATED per field (BackTranslate, or BackUnknown for any other expression or a
    missing re-assignment), so a different mapping function is translated and C20_rpc_paths_designate_same
    stops holding.  Also fail closed: any other module of stepup/core calling get_step_info over RPC."""
    from .astutil import REPO
    arel = f"{CORE}/api.py"
    tree = parse_module(arel)
    fields = []
    parents = {}
    for node in ast.walk(tree):
        for ch in ast.iter_child_nodes(node):
            parents[id(ch)] = node
    fns = list(functions_with_parents(tree))
    for node in ast.walk(tree):
        if not (isinstance(node, ast.Call) and isinstance(node.func, ast.Attribute)
                and ast.unparse(node.func.value) == "get_rpc_client().call"):
            continue
        method = node.func.attr
        par = parents.get(id(node))
        if isinstance(par, ast.Expr):
            continue   # result discarded
        owner = [q for q, f2 in fns if any(n2 is node for n2 in ast.walk(f2))]
        owner = max(owner, key=len) if owner else "module"
        if method not in RPC_RESULT_PATH_FIELDS:
            raise TranslatorError(f"{arel}:{node.lineno} ({owner}): result of RPC {method} is used; not a known method")
        if not (isinstance(par, ast.Assign) and len(par.targets) == 1 and isinstance(par.targets[0], ast.Name)):
            raise TranslatorError(f"{arel}:{node.lineno} ({owner}): result of RPC {method} is not bound to a variable")
        var = par.targets[0].id
        fn = dict(fns)[owner]
        for field in RPC_RESULT_PATH_FIELDS[method]:
            assigns = [st for st in ast.walk(fn) if isinstance(st, ast.Assign) and len(st.targets) == 1
                       and ast.unparse(st.targets[0]) == f"{var}.{field}"]
            kind = "BackUnknown"
            if len(assigns) == 1:
                src = ast.unparse(assigns[0].value)
                m = re.fullmatch(r"(?:sorted|list|tuple)?\(?\(?translate_back\((\w+)\) for (\w+) in " + re.escape(f"{var}.{field}") + r"\)?\)?", src) \
                    or re.fullmatch(r"\[translate_back\((\w+)\) for (\w+) in " + re.escape(f"{var}.{field}") + r"\]", src)
                if m and m.group(1) == m.group(2):
                    kind = "BackTranslate"
            # the field must not be read before it is mapped back
            fields.append((f"api.py:{owner}:{method}.{field}", kind))
    for path in sorted((REPO / CORE).glob("*.py")):
        if path.name in ("api.py", "director.py"):
            continue
        t2 = parse_module(f"{CORE}/{path.name}")
        for node in ast.walk(t2):
            if isinstance(node, ast.Attribute) and node.attr == "get_step_info" and "call" in ast.unparse(node.value):
                raise TranslatorError(f"{CORE}/{path.name}:{node.lineno}: get_step_info is called over RPC outside api.py")
    if not fields:
        raise TranslatorError("api.py: no RPC result with path fields found (get_info gone?)")
    return fields


HISTORY_KEYS = {"inp": True, "env": False, "out": True, "vol": True}   # key -> holds paths


def amend_history_facts():
    """Step-side state that remembers paths across API calls: `_AMEND_HISTORY` (api.py).  Every statement that
    reads it (`X.difference_update(_AMEND_HISTORY[k])`: X is compared with the history) or writes it
    (`_AMEND_HISTORY[k].update(X)`) is listed with the FRAME of X, found from the assignment that defines X in the
    same function: `{translate(v) for v in ...}` -> FTranslated (root-relative), `{subs_env(v) for v in ...}` /
    `coerce_paths(...)` -> FRaw (relative to the step's working directory), the env key -> FNotPath.  The frames are
    GENERATED; a comparison of raw paths with a history of translated ones is translated (not rejected) and
    C20_amend_history_frames / C20_amend_drops_only_same_file stop holding.  Fail closed: `_AMEND_HISTORY` used in
    another function than `amend`, in another statement shape, with a non-literal key, X not a local set built by
    one of the recognised comprehensions; another module-level mutable collection whose name contains HISTORY."""
    arel = f"{CORE}/api.py"
    tree = parse_module(arel)
    fns = list(functions_with_parents(tree))
    # module-level definition
    defs = [n for n in tree.body if isinstance(n, ast.Assign) and any(
        isinstance(t, ast.Name) and "HISTORY" in t.id.upper() for t in n.targets)]
    if len(defs) != 1 or ast.unparse(defs[0].targets[0]) != "_AMEND_HISTORY":
        raise TranslatorError(f"{arel}: module-level history collections changed: {[ast.unparse(d.targets[0]) for d in defs]}")
    d = defs[0].value
    if not (isinstance(d, ast.Dict) and sorted(ast.literal_eval(k) for k in d.keys) == sorted(HISTORY_KEYS)
            and all(ast.unparse(v) == "set()" for v in d.values)):
        raise TranslatorError(f"{arel}: _AMEND_HISTORY is no longer a dict of empty sets with keys {sorted(HISTORY_KEYS)}")
    parents = {}
    for node in ast.walk(tree):
        for ch in ast.iter_child_nodes(node):
            parents[id(ch)] = node
    uses = []
    for node in ast.walk(tree):
        if not (isinstance(node, ast.Name) and node.id == "_AMEND_HISTORY") or parents.get(id(node)) is defs[0]:
            continue
        owner = [q for q, f2 in fns if any(n2 is node for n2 in ast.walk(f2))]
        owner = max(owner, key=len) if owner else "module"
        if owner != "amend":
            raise TranslatorError(f"{arel}:{node.lineno}: _AMEND_HISTORY is used in {owner}")
        sub = parents.get(id(node))
        if not (isinstance(sub, ast.Subscript) and isinstance(sub.slice, ast.Constant) and sub.slice.value in HISTORY_KEYS):
            raise TranslatorError(f"{arel}:{node.lineno}: _AMEND_HISTORY is not indexed by a literal key")
        key = sub.slice.value
        up = parents.get(id(sub))
        stmt = None
        op = var = None
        if isinstance(up, ast.Call) and up.args and up.args[0] is sub and isinstance(up.func, ast.Attribute) \
                and up.func.attr == "difference_update" and isinstance(up.func.value, ast.Name) and len(up.args) == 1:
            op, var, stmt = "HRead", up.func.value.id, parents.get(id(up))
        elif isinstance(up, ast.Attribute) and up.attr == "update" and isinstance(parents.get(id(up)), ast.Call):
            call = parents[id(up)]
            if len(call.args) == 1 and isinstance(call.args[0], ast.Name) and not call.keywords:
                op, var, stmt = "HWrite", call.args[0].id, parents.get(id(call))
        if op is None or not isinstance(stmt, ast.Expr):
            raise TranslatorError(f"{arel}:{node.lineno}: unrecognised use of _AMEND_HISTORY[{key!r}]: "
                                  f"{ast.unparse(parents.get(id(up), up))[:80]}")
        fn = dict(fns)[owner]
        if not HISTORY_KEYS[key]:
            frame = "FNotPath"
        else:
            assigns = [st for st in ast.walk(fn) if isinstance(st, ast.Assign) and len(st.targets) == 1
                       and isinstance(st.targets[0], ast.Name) and st.targets[0].id == var and st.lineno < node.lineno]
            if not assigns:
                raise TranslatorError(f"{arel}:{node.lineno}: {var} has no assignment before it meets the history")
            src = ast.unparse(max(assigns, key=lambda st: st.lineno).value)
            if re.fullmatch(r"\{translate\((\w+)\) for \1 in \w+\}", src):
                frame = "FTranslated"
            elif re.fullmatch(r"\{subs_env\((\w+)\) for \1 in \w+\}", src) or re.fullmatch(r"coerce_paths\(\w+\)", src):
                frame = "FRaw"
            else:
                raise TranslatorError(f"{arel}:{node.lineno}: frame of {var} not recognised: {var} = {src[:70]}")
        uses.append((f"api.py:amend:{key}:{var}:{op}", key, op, frame, node.lineno))
    if sum(1 for u in uses if u[2] == "HWrite") != len(HISTORY_KEYS) or not any(u[2] == "HRead" for u in uses):
        raise TranslatorError(f"{arel}: expected one write per key and at least one read of _AMEND_HISTORY: {uses}")
    # the amend_step RPC sends the translated sets
    fn = dict(fns)["amend"]
    rpc = [n for n in ast.walk(fn) if isinstance(n, ast.Call) and ast.unparse(n.func) == "get_rpc_client().call.amend_step"]
    if len(rpc) != 1 or [ast.unparse(a) for a in rpc[0].args] != ["job_i", "tr_inp_paths", "sorted(env_deps)", "tr_out_paths", "tr_vol_paths"]:
        raise TranslatorError(f"{arel}: amend_step RPC arguments changed")
    return [(n, k, o, f) for n, k, o, f, _ in sorted(uses, key=lambda u: u[4])]


def generate():
    rel = f"{CORE}/path.py"
    tree = parse_module(rel)
    known: dict = {}
    parts = []
    infos = {}
    for name in ("get_affixes", "apply_affixes", "get_stepup_root", "translate", "translate_back"):
        fn = find_function(tree, name)
        text, info = FuncTranslator(fn, known=known, rel=rel).translate()
        known[name] = info
        infos[name] = info
        parts.append(text)
    for name in ("apply_affixes",):
        if set(infos[name]["raise_classes"]) != {"PathError"}:
            raise TranslatorError(f"{rel}:{name}: raises something other than PathError")
        msgs = infos[name]["raise_msgs"]
        if any(not m for m in msgs) or len(set(msgs)) != len(msgs):
            raise TranslatorError(f"{rel}:{name}: raise sites cannot be told apart by their messages")
    for name in ("get_affixes", "get_stepup_root", "translate", "translate_back"):
        if infos[name]["raising"]:
            raise TranslatorError(f"{rel}:{name}: contains a raise statement")
    for name in ("translate", "translate_back"):
        if infos[name]["defaults"] != {"workdir": "."}:
            raise TranslatorError(f"{rel}:{name}: default of workdir is not '.'")
        if not infos[name]["env"]:
            raise TranslatorError(f"{rel}:{name}: does not read the environment")
    arel = f"{CORE}/api.py"
    atree = parse_module(arel)
    kfn = find_function(atree, "_keep_affixes")
    ktext, kinfo = FuncTranslator(kfn, known=known, rel=arel).translate(coq_name="keep_affixes")
    if kinfo["env"] or not kinfo["raising"]:
        raise TranslatorError(f"{arel}:_keep_affixes: unexpected shape")
    infos["_keep_affixes"] = kinfo
    etext, exprs = translate_exec_env()
    sites = scan_call_sites()
    tsites = target_call_site_facts()
    bfields = rpc_back_facts()
    huses = amend_history_facts()
    lines = [
        "(* GENERATED by translator/gen_path.py from /repo -- do not edit *)",
        "From Coq Require Import List NArith Bool.",
        "From SV Require Import lib.Bytes lib.PosixPath.",
        "Import ListNotations.",
        "Open Scope N_scope.",
        "",
        "(* stepup/core/path.py *)",
        *parts,
        "Definition translate_default_workdir : str := " + lit(infos["translate"]["defaults"]["workdir"]) + ".",
        "Definition translate_back_default_workdir : str := " + lit(infos["translate_back"]["defaults"]["workdir"]) + ".",
        "",
        "(* stepup/core/api.py: _keep_affixes *)",
        ktext,
        "(* stepup/core/executor.py: Executor._run_command, the step is launched with cwd=workdir and",
        f"   env['ROOT'] = {exprs['ROOT']} ; env['HERE'] = {exprs['HERE']} *)",
        etext,
        "(* call sites of translate / translate_back / _keep_affixes in stepup/core *)",
        "Inductive call_shape := Direct1 | Direct2 | KeepAffixes.",
        "Definition call_sites : list (str * call_shape) := [",
        ";\n".join(f"  ({coq_str(n)}, {shape}) (* {n} -> {callee} *)" for n, callee, shape in sites),
        "].",
        "(* stepup/core/tui.py: call sites of _normalize_targets (which resolves raw targets against os.getcwd());",
        "   true = the call precedes every working-directory change of its function *)",
        "Definition target_call_sites : list (str * bool) := [",
        ";\n".join(f"  ({coq_str(n)}, {'true' if b else 'false'}) (* {n}; cwd changes: {', '.join(ch) or 'none'} *)"
                    for n, b, ch in tsites),
        "].",
        "Definition targets_normalized_in_user_cwd : bool := forallb (fun s => snd s) target_call_sites.",
        "(* stepup/core/api.py: path fields of RPC results and the function that maps them back for the step *)",
        "(* stepup/core/api.py: statements of amend() that compare a path set with / add it to _AMEND_HISTORY, and the",
        "   frame the set is in (FTranslated: after translate(), root-relative; FRaw: as the step wrote it) *)",
        "Inductive hist_op := HRead | HWrite.",
        "Inductive frame := FTranslated | FRaw | FNotPath.",
        "Definition amend_history_uses : list (str * (hist_op * frame)) := [",
        ";\n".join(f"  ({coq_str(n)}, ({o}, {f})) (* {n} *)" for n, k, o, f in huses),
        "].",
        "Inductive back_map := BackTranslate | BackUnknown.",
        "Definition rpc_back_fields : list (str * back_map) := [",
        ";\n".join(f"  ({coq_str(n)}, {k}) (* {n} *)" for n, k in bfields),
        "].",
        "",
    ]
    facts = {"functions": {k: {kk: vv for kk, vv in v.items()} for k, v in infos.items()},
             "exec_exprs": exprs, "sites": sites}
    return "\n".join(lines), facts
