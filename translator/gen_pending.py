"""Translator for C19: exit status (finalize.report_unbuilt and helpers, Builder.finalize, serve,
TUI) and the pending analysis (pending.py constants, the shared unavailable-input predicate, SQL
fingerprints).  Fail-closed: any source shape that is not recognised raises TranslatorError.

What is REGENERATED (the model follows the source automatically):
  * ReturnCode bit values, StepState / FileState / Need values (enums.py, imported);
  * root-kind priorities ROOT_* and BLOCK_STEP (pending.py, imported);
  * UNAVAILABLE_INPUT_WHERE, parsed into a Gallina boolean over (state, detached, dynamic);
  * the deferred/dynamic arm of _INSERT_PEND_FILE_BLOCK (its NOT IN state list);
  * report_unbuilt, _report_pending_steps, _report_missing_targets, _report_glob_violations as
    Gallina functions (statement-level translation of everything that touches the return code).
What is FINGERPRINTED (a change breaks the tie and is reported as a broken obligation, the
correspondence then looks for a concrete disagreement):
  * the source templates of every pend_* SQL statement and the order in which _analyze_pending
    executes them; the definitions of the inputs of the return-code functions; the guard chain of
    Builder.finalize; how serve() / director main / the TUI pass the code on.
"""

from __future__ import annotations

import ast
import hashlib
import importlib
import re

from .astutil import (TranslatorError, body_without_docstring, coq_str, find_function,
                      parse_module, REPO)

CORE = "stepup/core"


# ---------------------------------------------------------------------------------------------
# Imported constants
# ---------------------------------------------------------------------------------------------


def _import(name):
    mod = importlib.import_module(name)
    path = getattr(mod, "__file__", "") or ""
    if not path.startswith(str(REPO)):
        raise TranslatorError(f"{name} imported from {path}, not from {REPO}")
    return mod


def enum_facts():
    enums = _import("stepup.core.enums")
    pend = _import("stepup.core.pending")
    rc = {m.name: m.value for m in enums.ReturnCode}
    want = ["INTERNAL", "INTERRUPTED", "FAILED", "WARNING", "PENDING", "DRAINED"]
    if sorted(rc) != sorted(want):
        raise TranslatorError(f"ReturnCode members changed: {sorted(rc)}")
    ss = {m.name: m.value for m in enums.StepState}
    if sorted(ss) != sorted(["PENDING", "RUNNING", "CHECKING", "SUCCEEDED", "FAILED"]):
        raise TranslatorError(f"StepState members changed: {sorted(ss)}")
    fs = {m.name: m.value for m in enums.FileState}
    need = {m.name: m.value for m in enums.Need}
    if sorted(need) != sorted(["OPTIONAL", "DEFAULT", "TARGET", "PLAN"]):
        raise TranslatorError(f"Need members changed: {sorted(need)}")
    kinds = {}
    for k in ["ROOT_FILE", "ROOT_RESOURCE", "ROOT_FAILED", "ROOT_DEFERRED", "ROOT_OTHER",
              "ROOT_RUNNABLE", "BLOCK_STEP"]:
        v = getattr(pend, k, None)
        if not isinstance(v, int) or v < 0:
            raise TranslatorError(f"pending.{k} is not a non-negative int")
        kinds[k] = v
    # static (non-OUTPUT/VOLATILE) role states, used by GlobViolation.is_error
    static_states = sorted(s.value for s in enums.FILE_STATES_BY_ROLE[enums.FileRole.STATIC])
    return rc, ss, fs, need, kinds, static_states


# ---------------------------------------------------------------------------------------------
# SQL boolean fragment -> Gallina
# ---------------------------------------------------------------------------------------------

_TOKEN = re.compile(r"\s*(?:(--[^\n]*)|(\d+)|([A-Za-z_][A-Za-z_0-9.]*)|([(),=]))")


def _tokens(text):
    pos, out = 0, []
    text = text.strip()
    while pos < len(text):
        m = _TOKEN.match(text, pos)
        if not m:
            raise TranslatorError(f"SQL predicate: cannot tokenise at {text[pos:pos + 30]!r}")
        pos = m.end()
        if m.group(1):
            continue
        if m.group(2):
            out.append(("num", int(m.group(2))))
        elif m.group(3):
            w = m.group(3)
            up = w.upper()
            if up in ("AND", "OR", "NOT", "IN", "IS", "NULL"):
                out.append((up, up))
            else:
                out.append(("id", w))
        else:
            out.append((m.group(4), m.group(4)))
    return out


class _P:
    """Recursive-descent parser for: e := t (OR t)* ; t := f (AND f)* ; f := NOT f | ( e ) | atom."""

    ATOMS = {"input_file.state": "state", "input_node.detached": "detached",
             "dynamic_dep.i": "dynamic", "pend_step.deferred": "deferred"}

    def __init__(self, toks):
        self.t, self.i = toks, 0

    def peek(self):
        return self.t[self.i][0] if self.i < len(self.t) else None

    def eat(self, kind):
        if self.peek() != kind:
            raise TranslatorError(f"SQL predicate: expected {kind}, got {self.t[self.i:self.i + 3]}")
        self.i += 1
        return self.t[self.i - 1][1]

    def expr(self):
        parts = [self.term()]
        while self.peek() == "OR":
            self.eat("OR")
            parts.append(self.term())
        return parts[0] if len(parts) == 1 else "(" + " || ".join(parts) + ")"

    def term(self):
        parts = [self.factor()]
        while self.peek() == "AND":
            self.eat("AND")
            parts.append(self.factor())
        return parts[0] if len(parts) == 1 else "(" + " && ".join(parts) + ")"

    def factor(self):
        if self.peek() == "NOT":
            self.eat("NOT")
            return f"(negb {self.factor()})"
        if self.peek() == "(":
            self.eat("(")
            e = self.expr()
            self.eat(")")
            return e
        return self.atom()

    def numlist(self):
        self.eat("(")
        vals = [self.eat("num")]
        while self.peek() == ",":
            self.eat(",")
            vals.append(self.eat("num"))
        self.eat(")")
        return "[" + "; ".join(str(v) for v in vals) + "]"

    def atom(self):
        name = self.eat("id")
        if name not in self.ATOMS:
            raise TranslatorError(f"SQL predicate: unknown column {name}")
        var = self.ATOMS[name]
        nxt = self.peek()
        if var == "state":
            if nxt == "=":
                self.eat("=")
                return f"(state =? {self.eat('num')})"
            if nxt == "IN":
                self.eat("IN")
                return f"(memN state {self.numlist()})"
            if nxt == "NOT":
                self.eat("NOT")
                self.eat("IN")
                return f"(negb (memN state {self.numlist()}))"
            raise TranslatorError("SQL predicate: state used without =, IN, NOT IN")
        if var == "dynamic":
            self.eat("IS")
            if self.peek() == "NOT":
                self.eat("NOT")
                self.eat("NULL")
                return "dynamic"
            self.eat("NULL")
            return "(negb dynamic)"
        # boolean columns
        return var


def sql_bool(text):
    p = _P(_tokens(text))
    e = p.expr()
    if p.i != len(p.t):
        raise TranslatorError(f"SQL predicate: trailing tokens {p.t[p.i:p.i + 3]}")
    return e


def unavailable_input():
    step = _import("stepup.core.step")
    text = step.UNAVAILABLE_INPUT_WHERE
    return sql_bool(text), " ".join(text.split())


def deferred_dynamic_arm():
    """The second disjunct of _INSERT_PEND_FILE_BLOCK's WHERE."""
    pend = _import("stepup.core.pending")
    step = _import("stepup.core.step")
    sql = pend._INSERT_PEND_FILE_BLOCK
    marker = f"WHERE ({step.UNAVAILABLE_INPUT_WHERE})"
    if sql.count(marker) != 1:
        raise TranslatorError("_INSERT_PEND_FILE_BLOCK does not embed UNAVAILABLE_INPUT_WHERE verbatim")
    rest = sql.split(marker, 1)[1].strip()
    m = re.fullmatch(r"OR\s*\((.*)\)", rest, re.S)
    if not m:
        raise TranslatorError("_INSERT_PEND_FILE_BLOCK: second disjunct not recognised")
    return sql_bool(m.group(1))


# ---------------------------------------------------------------------------------------------
# Return-code functions of finalize.py -> Gallina
# ---------------------------------------------------------------------------------------------

RC_VAR = "returncode"

# name -> (expected source of its definition, Gallina parameter, Gallina type)
INPUT_DEFS = {
    "report_unbuilt": {
        "nfailed": ("sum((1 for _ in workflow.steps(StepState.FAILED)))", "nfailed", "N"),
    },
    "_report_pending_steps": {
        "summary": ("analyze_pending(workflow)", None, None),
    },
    "_report_missing_targets": {
        "missing_targets": ("sorted((target for target in workflow.targets if not workflow.is_regular_output(target)))",
                            "n_missing_targets", "N"),
        "missing_target_dirs": ("sorted((target_dir for target_dir in workflow.target_dirs if not workflow.has_regular_output_under(target_dir)))",
                                "n_missing_target_dirs", "N"),
    },
    "_report_glob_violations": {
        "violations": ("workflow.find_glob_violations()", None, None),
        "warnings": ("[violation for violation in violations if not violation.is_error]", "n_glob_warnings", "N"),
        "errors": ("[violation for violation in violations if violation.is_error]", "n_glob_errors", "N"),
    },
}

CONDS = {
    "nfailed > 0": ("(0 <? nfailed)", ["nfailed"]),
    "scheduler.draining": ("draining", []),
    "summary.ntotal == 0": ("(ntotal =? 0)", []),
    "len(missing_targets) > 0": ("(0 <? n_missing_targets)", ["missing_targets"]),
    "len(missing_target_dirs) > 0": ("(0 <? n_missing_target_dirs)", ["missing_target_dirs"]),
    "len(warnings) > 0": ("(0 <? n_glob_warnings)", ["warnings"]),
    "len(errors) > 0": ("(0 <? n_glob_errors)", ["errors"]),
    "returncode == ReturnCode(0)": ("(rc =? 0)", []),
}

SUBCALLS = {
    "_report_pending_steps": "r_pending",
    "_report_missing_targets": "r_targets",
    "_report_glob_violations": "r_globs",
}

# Sub-calls that take one boolean keyword argument besides (workflow, reporter): the generated
# caller receives the callee as a function of that boolean.  name -> (keyword, default).
SUBCALL_KW = {"_report_glob_violations": ("errors_only", "False")}

# Boolean parameters of the translated functions (usable in guards).
BOOL_PARAMS = {"_report_glob_violations": ["errors_only"]}

PARAMS = {
    "report_unbuilt": "(nfailed : N) (draining : bool) (r_pending r_targets : N) (r_globs : bool -> N)",
    "_report_pending_steps": "(ntotal : N)",
    "_report_missing_targets": "(n_missing_targets n_missing_target_dirs : N)",
    "_report_glob_violations": "(errors_only : bool) (n_glob_warnings n_glob_errors : N)",
}

# Expected Python signatures (ast.unparse of the arguments).
SIGNATURES = {
    "report_unbuilt": "workflow: Workflow, scheduler: Scheduler, reporter: ReporterClient",
    "_report_pending_steps": "workflow: Workflow, reporter: ReporterClient",
    "_report_missing_targets": "workflow: Workflow, reporter: ReporterClient",
    "_report_glob_violations": "workflow: Workflow, reporter: ReporterClient, errors_only: bool=False",
}


def _mentions(node, name):
    return any(isinstance(n, ast.Name) and n.id == name for n in ast.walk(node))


def _has_return(node):
    return any(isinstance(n, ast.Return) for n in ast.walk(node))


class _RcTranslator:
    def __init__(self, fname, rc_names):
        self.fname = fname
        self.rc_names = rc_names
        self.defs_seen = {}
        self.conds = []

    def rc_expr(self, e, allow_var=True):
        src = ast.unparse(e)
        if src == "ReturnCode(0)":
            return "0"
        m = re.fullmatch(r"ReturnCode\.([A-Z]+)", src)
        if m:
            if m.group(1) not in self.rc_names:
                raise TranslatorError(f"{self.fname}: unknown ReturnCode.{m.group(1)}")
            return f"rc_{m.group(1)}"
        if isinstance(e, ast.Await) and isinstance(e.value, ast.Call) and isinstance(e.value.func, ast.Name) \
                and e.value.func.id in SUBCALLS:
            call, callee = e.value, e.value.func.id
            if [ast.unparse(a) for a in call.args] != ["workflow", "reporter"]:
                raise TranslatorError(f"{self.fname}: call {ast.unparse(call)} has unexpected arguments")
            if callee not in SUBCALL_KW:
                if call.keywords:
                    raise TranslatorError(f"{self.fname}: call {ast.unparse(call)} has unexpected keywords")
                return SUBCALLS[callee]
            kw, default = SUBCALL_KW[callee]
            if len(call.keywords) > 1 or any(k.arg != kw for k in call.keywords):
                raise TranslatorError(f"{self.fname}: call {ast.unparse(call)} has unexpected keywords")
            arg = ast.unparse(call.keywords[0].value) if call.keywords else default
            return f"({SUBCALLS[callee]} {self.bool_expr(arg)})"
        if allow_var and src == RC_VAR:
            return "rc"
        raise TranslatorError(f"{self.fname}: return-code expression not recognised: {src}")

    BOOL_EXPRS = {"True": "true", "False": "false",
                  "returncode != ReturnCode(0)": "(negb (rc =? 0))",
                  "returncode == ReturnCode(0)": "(rc =? 0)"}

    def bool_expr(self, src):
        if src not in self.BOOL_EXPRS:
            raise TranslatorError(f"{self.fname}: boolean argument not recognised: {src}")
        return self.BOOL_EXPRS[src]

    def cond(self, test):
        if isinstance(test, ast.BoolOp):
            op = " && " if isinstance(test.op, ast.And) else " || "
            return "(" + op.join(self.cond(v) for v in test.values) + ")"
        if isinstance(test, ast.UnaryOp) and isinstance(test.op, ast.Not):
            return f"(negb {self.cond(test.operand)})"
        if isinstance(test, ast.Name) and test.id in BOOL_PARAMS.get(self.fname, []):
            self.conds.append(test.id)
            return test.id
        src = ast.unparse(test)
        if src not in CONDS:
            raise TranslatorError(f"{self.fname}: guard not recognised: {src}")
        g, needs = CONDS[src]
        for n in needs:
            if n not in self.defs_seen:
                raise TranslatorError(f"{self.fname}: guard {src} uses {n} before its definition")
        self.conds.append(src)
        return g

    def block(self, stmts, tail):
        """Translate stmts; `tail` is the Gallina expression for what follows (None = falls off)."""
        if not stmts:
            if tail is None:
                raise TranslatorError(f"{self.fname}: control falls off the end without return")
            return tail
        s, rest = stmts[0], stmts[1:]
        if isinstance(s, ast.AsyncWith):
            if ast.unparse(s.items[0].context_expr) != "workflow.db" or len(s.items) != 1:
                raise TranslatorError(f"{self.fname}: unexpected async with {ast.unparse(s.items[0])}")
            if _has_return(s):
                raise TranslatorError(f"{self.fname}: return inside async with")
            return self.block(list(s.body) + rest, tail)
        if isinstance(s, ast.Return):
            if rest:
                raise TranslatorError(f"{self.fname}: statements after return")
            if s.value is None:
                raise TranslatorError(f"{self.fname}: bare return")
            return self.rc_expr(s.value)
        if isinstance(s, ast.Assign) and len(s.targets) == 1 and isinstance(s.targets[0], ast.Name):
            name = s.targets[0].id
            if name == RC_VAR:
                return f"let rc := {self.rc_expr(s.value, allow_var=False)} in\n  {self.block(rest, tail)}"
            if _mentions(s.value, RC_VAR):
                raise TranslatorError(f"{self.fname}: {name} is computed from the return code")
            defs = INPUT_DEFS[self.fname]
            if name in defs:
                got = ast.unparse(s.value)
                if got != defs[name][0]:
                    raise TranslatorError(f"{self.fname}: definition of {name} changed: {got}")
                if name in self.defs_seen:
                    raise TranslatorError(f"{self.fname}: {name} assigned twice")
                self.defs_seen[name] = got
            return self.block(rest, tail)
        if isinstance(s, ast.AugAssign) and isinstance(s.target, ast.Name) and s.target.id == RC_VAR:
            if not isinstance(s.op, ast.BitOr):
                raise TranslatorError(f"{self.fname}: return code updated with {type(s.op).__name__}")
            return f"let rc := N.lor rc {self.rc_expr(s.value, allow_var=False)} in\n  {self.block(rest, tail)}"
        if isinstance(s, ast.If):
            touches = _mentions(s, RC_VAR) or _has_return(s)
            if not touches:
                # formatting only; must not (re)define an input either
                for n in ast.walk(s):
                    if isinstance(n, (ast.Assign, ast.AugAssign, ast.NamedExpr)):
                        for t in (n.targets if isinstance(n, ast.Assign) else [n.target]):
                            if isinstance(t, ast.Name) and t.id in INPUT_DEFS[self.fname]:
                                raise TranslatorError(f"{self.fname}: {t.id} reassigned in a branch")
                return self.block(rest, tail)
            if s.orelse:
                raise TranslatorError(f"{self.fname}: else branch on a return-code guard")
            g = self.cond(s.test)
            if _has_return(s):
                if not isinstance(s.body[-1], ast.Return):
                    raise TranslatorError(f"{self.fname}: return not last in guarded block")
                then = self.block(list(s.body), None)
                return f"if {g} then ({then})\n  else ({self.block(rest, tail)})"
            then = self.block(list(s.body), "rc")
            return f"let rc := (if {g} then ({then}) else rc) in\n  {self.block(rest, tail)}"
        if isinstance(s, ast.Expr):
            if _mentions(s, RC_VAR):
                raise TranslatorError(f"{self.fname}: expression statement uses the return code: {ast.unparse(s)[:60]}")
            return self.block(rest, tail)
        if isinstance(s, (ast.Assign, ast.AugAssign, ast.AnnAssign)):
            if _mentions(s, RC_VAR):
                raise TranslatorError(f"{self.fname}: statement touches the return code: {ast.unparse(s)[:60]}")
            return self.block(rest, tail)
        raise TranslatorError(f"{self.fname}: statement kind {type(s).__name__} not recognised")


def translate_rc_function(tree, fname, rc_names):
    fn = find_function(tree, fname)
    if not isinstance(fn, ast.AsyncFunctionDef):
        raise TranslatorError(f"{fname} is no longer async")
    if ast.unparse(fn.args) != SIGNATURES[fname]:
        raise TranslatorError(f"{fname}: signature changed: {ast.unparse(fn.args)}")
    tr = _RcTranslator(fname, rc_names)
    body = tr.block(body_without_docstring(fn), None)
    for name, (_, param, _) in INPUT_DEFS[fname].items():
        if name not in tr.defs_seen:
            raise TranslatorError(f"{fname}: input {name} is no longer defined")
    gname = "gen_" + fname.lstrip("_")
    text = f"Definition {gname} {PARAMS[fname]} : N :=\n  {body}."
    # _report_pending_steps has no `returncode` variable: nothing to pre-bind.  The others start
    # with `returncode = ReturnCode(0)` which the translation turns into `let rc := 0`.
    return text, tr.conds


# ---------------------------------------------------------------------------------------------
# Structure facts: Builder.finalize, serve, director main, TUI
# ---------------------------------------------------------------------------------------------


def finalize_facts():
    tree = parse_module(f"{CORE}/builder.py")
    fn = find_function(tree, "finalize", cls="Builder")
    body = body_without_docstring(fn)
    assigns = [s for s in body if isinstance(s, ast.Assign)]
    if not assigns or ast.unparse(assigns[0]) != \
            "self.returncode = await report_unbuilt(self.workflow, self.scheduler, self.reporter)":
        raise TranslatorError("Builder.finalize: returncode is not assigned from report_unbuilt first")
    stores = []
    for n in ast.walk(tree):
        if isinstance(n, (ast.Assign, ast.AugAssign, ast.AnnAssign)):
            for t in (n.targets if isinstance(n, ast.Assign) else [n.target]):
                if isinstance(t, ast.Attribute) and t.attr == "returncode":
                    stores.append(ast.unparse(n))
    if len(stores) != 1:
        raise TranslatorError(f"builder.py: returncode stored at {len(stores)} places: {stores}")
    ifs = [s for s in body if isinstance(s, ast.If)]
    if len(ifs) != 1:
        raise TranslatorError("Builder.finalize: expected exactly one if/elif chain")
    guards, node = [], ifs[0]
    while True:
        guards.append(ast.unparse(node.test))
        if len(node.orelse) == 1 and isinstance(node.orelse[0], ast.If):
            node = node.orelse[0]
        else:
            cleanup = [ast.unparse(s).split("(")[0] for s in node.orelse]
            break
    if any(_mentions_attr(s, "returncode") for s in node.orelse):
        raise TranslatorError("Builder.finalize: cleanup branch touches returncode")
    return guards, cleanup


def _mentions_attr(node, attr):
    return any(isinstance(n, ast.Attribute) and n.attr == attr for n in ast.walk(node))


def serve_facts():
    tree = parse_module(f"{CORE}/director.py")
    fn = find_function(tree, "serve")
    rets = [n for n in ast.walk(fn) if isinstance(n, ast.Return)]
    srcs = [ast.unparse(r) for r in rets]
    early = [s for s in srcs if "returncode=ReturnCode." in s]
    final = [s for s in srcs if "returncode=handler.builder.returncode" in s]
    if len(rets) != 2 or len(early) != 1 or len(final) != 1:
        raise TranslatorError(f"serve: return statements changed: {srcs}")
    m = re.search(r"returncode=ReturnCode\.([A-Z]+)", early[0])
    # the early return must sit in the `except GraphError` handler of reconcile_targets()
    ok = False
    for n in ast.walk(fn):
        if isinstance(n, ast.Try):
            calls = [ast.unparse(s) for s in n.body]
            if calls == ["handler.workflow.reconcile_targets()"] and len(n.handlers) == 1 \
                    and ast.unparse(n.handlers[0].type) == "GraphError" \
                    and any(isinstance(x, ast.Return) for x in ast.walk(n.handlers[0])):
                ok = True
    if not ok:
        raise TranslatorError("serve: early return is not the GraphError handler of reconcile_targets()")
    # director main passes the value on unchanged
    am = find_function(tree, "async_main")
    am_rets = [ast.unparse(r) for r in ast.walk(am) if isinstance(r, ast.Return)]
    if am_rets != ["return serve_result.returncode.value"]:
        raise TranslatorError(f"async_main: returns {am_rets}")
    mainfn = find_function(tree, "main")
    src = ast.unparse(mainfn)
    if "returncode = asyncio.run(async_main(args, db, mp_ctx))" not in src or "sys.exit(returncode)" not in src:
        raise TranslatorError("director.main: exit status is not async_main's result")
    return m.group(1)


# ---------------------------------------------------------------------------------------------
# The paths between Builder.finalize and the process exit code
# ---------------------------------------------------------------------------------------------

RUN_ONCE_EXPECTED = [
    "await wait_for_any_event(self.resume, stop_event)",
    "if stop_event.is_set():\n    return False",
    "self.resume.clear()",
    "await self.job_loop()",
    "await self.finalize()",
    "return True",
]
BUILD_LOOP_EXPECTED = ("while await builder.run_once(stop_event):\n    if watcher is None:\n        stop_event.set()\n"
                       "    else:\n        watcher.start_watching.set()")


def _stores_of(tree, attr):
    out = []
    for n in ast.walk(tree):
        if isinstance(n, (ast.Assign, ast.AugAssign, ast.AnnAssign)):
            for t in (n.targets if isinstance(n, ast.Assign) else [n.target]):
                for x in ast.walk(t):
                    if isinstance(x, ast.Attribute) and x.attr == attr and isinstance(x.ctx, ast.Store):
                        out.append(ast.unparse(n))
    return out


def exit_path_facts(rc_names):
    """Structure facts (fail closed) about how a phase's code reaches the process exit status.

    * `Builder.returncode` has the attrs default ReturnCode.<X> (what serve() returns when no phase ran):
      regenerated as builder_default_rc;
    * `Builder.run_once` = wait, (stop: no phase), clear, job_loop, finalize, True: every phase that
      starts ends with finalize() unless job_loop raises;
    * `build_loop` runs phases until stop: without a watcher exactly one;
    * no statement outside builder.py stores a `.returncode` of the builder (director.py, tui.py,
      finalize.py, scheduler.py, watcher.py are scanned for attribute stores);
    * `_run_tasks`: the gather sits in try/finally, the finally block neither returns nor touches
      returncode (an exception of a task propagates out of serve());
    * `serve`: nothing between `_run_tasks` and the final return touches returncode;
    * `async_main`: the `except Exception` handler around serve() re-raises (bare `raise` last), the
      finally block has no return: an exception in serve() ends the process through the interpreter
      (exit status 1 = ReturnCode.INTERNAL), never through a build code.
    """
    btree = parse_module(f"{CORE}/builder.py")
    default = None
    for n in ast.walk(btree):
        if isinstance(n, ast.AnnAssign) and isinstance(n.target, ast.Name) and n.target.id == "returncode":
            m = re.fullmatch(r"attrs\.field\(init=False, default=ReturnCode\.([A-Z]+)\)", ast.unparse(n.value))
            if not m or m.group(1) not in rc_names:
                raise TranslatorError(f"Builder.returncode: field definition changed: {ast.unparse(n.value)}")
            default = m.group(1)
    if default is None:
        raise TranslatorError("Builder.returncode field not found")
    ro = find_function(btree, "run_once", cls="Builder")
    got = [ast.unparse(s_) for s_ in body_without_docstring(ro)]
    if got != RUN_ONCE_EXPECTED:
        raise TranslatorError(f"Builder.run_once changed: {got}")
    dtree = parse_module(f"{CORE}/director.py")
    bl = find_function(dtree, "build_loop")
    got = "\n".join(ast.unparse(s_) for s_ in body_without_docstring(bl))
    if got != BUILD_LOOP_EXPECTED:
        raise TranslatorError(f"director.build_loop changed: {got}")
    for rel in ("director.py", "tui.py", "finalize.py", "scheduler.py", "watcher.py", "executor.py"):
        tree = dtree if rel == "director.py" else parse_module(f"{CORE}/{rel}")
        st = [x for x in _stores_of(tree, "returncode")]
        if st:
            raise TranslatorError(f"{rel}: stores a .returncode attribute: {st}")
    rt = find_function(dtree, "_run_tasks")
    tries = [n for n in ast.walk(rt) if isinstance(n, ast.Try)]
    if len(tries) != 1 or [ast.unparse(s_) for s_ in tries[0].body] != ["await asyncio.gather(*coroutines)"] \
            or tries[0].handlers or not tries[0].finalbody:
        raise TranslatorError("_run_tasks: the gather is no longer `try: await asyncio.gather(*coroutines) finally: ...`")
    fin = ast.Module(body=tries[0].finalbody, type_ignores=[])
    if _has_return(fin) or _mentions_attr(fin, "returncode"):
        raise TranslatorError("_run_tasks: the finally block returns or touches returncode")
    if "await handler.builder.stop()" not in [ast.unparse(s_) for s_ in tries[0].finalbody]:
        raise TranslatorError("_run_tasks: builder.stop() is no longer awaited on the way out")
    sv = find_function(dtree, "serve")
    body = body_without_docstring(sv)
    idx = [k for k, s_ in enumerate(body) if ast.unparse(s_).startswith("await _run_tasks(")]
    if len(idx) != 1:
        raise TranslatorError("serve: expected exactly one `await _run_tasks(...)` statement")
    tail = body[idx[0] + 1:]
    if not isinstance(tail[-1], ast.Return) or any(_has_return(ast.Module(body=[s_], type_ignores=[])) for s_ in tail[:-1]):
        raise TranslatorError("serve: return structure after _run_tasks changed")
    for s_ in tail[:-1]:
        if _mentions_attr(s_, "returncode"):
            raise TranslatorError(f"serve: statement after _run_tasks touches returncode: {ast.unparse(s_)[:60]}")
    am = find_function(dtree, "async_main")
    ok = False
    for n in ast.walk(am):
        if isinstance(n, ast.Try) and any("await serve(" in ast.unparse(s_) for s_ in n.body):
            hs = n.handlers
            if len(hs) != 1 or ast.unparse(hs[0].type) != "Exception":
                raise TranslatorError("async_main: handlers around serve() changed")
            last = hs[0].body[-1]
            if not (isinstance(last, ast.Raise) and last.exc is None):
                raise TranslatorError("async_main: the handler around serve() no longer re-raises")
            if _has_return(ast.Module(body=hs[0].body + n.finalbody, type_ignores=[])):
                raise TranslatorError("async_main: return inside the handler / finally around serve()")
            ok = True
    if not ok:
        raise TranslatorError("async_main: try around serve() not found")
    return default


TUI_EXPECTED = (
    "if wait_status < 0:\n"
    "    signal_name = signal.Signals(-wait_status).name\n"
    "    self.reporter_handler.report('ERROR', f'Director killed by {signal_name}', [])\n"
    "    returncode = ReturnCode.INTERNAL.value\n"
    "else:\n"
    "    returncode = wait_status\n"
    "if self.sig is not None:\n"
    "    returncode |= ReturnCode.INTERRUPTED.value\n"
    "return returncode"
)


def tui_facts():
    tree = parse_module(f"{CORE}/tui.py")
    fn = find_function(tree, "translate_wait_status")
    src = "\n".join(ast.unparse(s) for s in body_without_docstring(fn))
    if src != TUI_EXPECTED:
        raise TranslatorError("tui.translate_wait_status changed")
    fn2 = find_function(tree, "_report_director_log_problems")
    rets = sorted({ast.unparse(r) for r in ast.walk(fn2) if isinstance(r, ast.Return)})
    if rets != ["return 0", "return ReturnCode.INTERNAL.value"]:
        raise TranslatorError(f"tui._report_director_log_problems returns {rets}")
    whole = ast.unparse(tree)
    if "return returncode | _report_director_log_problems(reporter_handler)" not in whole:
        raise TranslatorError("tui: the director's code is no longer OR-ed with the log check")
    return True


# ---------------------------------------------------------------------------------------------
# Fingerprints of pending.py
# ---------------------------------------------------------------------------------------------

# sha256[:16] of the source template (ast.unparse of the assigned expression) of each statement,
# as read at the commit the model in coq/model/Pending.v was written against.
EXPECTED_SQL = {
    "_CREATE_PEND_TABLES": "f612d854cf474357",
}

EXEC_ORDER = ["_INSERT_PEND_STEP", "_INSERT_PEND_FILE_BLOCK", "_INSERT_PEND_DEAD_FILE",
              "_INSERT_PEND_UNSAFE_ANC", "_INSERT_PEND_RESOURCE", "_INSERT_PEND_STEP_BLOCK",
              "_INSERT_PEND_SEED_FILE", "_INSERT_PEND_SEED_RESOURCE", "_INSERT_PEND_BLOCKER",
              "_INSERT_PEND_BLOCKER_RUNNABLE", "_INSERT_PEND_ATTRIBUTED"]


def _norm(src):
    # collapse runs of whitespace inside string templates so that re-indentation is harmless,
    # and drop SQL comments
    src = re.sub(r"--[^\n]*?(\\n|\n)", r"\1", src)
    return re.sub(r"(\\n|\s)+", " ", src)


def _fp(src):
    return hashlib.sha256(_norm(src).encode()).hexdigest()[:16]


def pending_fingerprints():
    tree = parse_module(f"{CORE}/pending.py")
    found = {}
    for node in tree.body:
        if isinstance(node, ast.Assign) and len(node.targets) == 1 and isinstance(node.targets[0], ast.Name):
            name = node.targets[0].id
            if name in EXPECTED_SQL:
                found[name] = _fp(ast.unparse(node.value))
        if isinstance(node, ast.FunctionDef) and node.name in EXPECTED_SQL:
            found[node.name] = _fp("\n".join(ast.unparse(s) for s in body_without_docstring(node)))
    missing = sorted(set(EXPECTED_SQL) - set(found))
    if missing:
        raise TranslatorError(f"pending.py: statements not found: {missing}")
    fn = find_function(tree, "_analyze_pending")
    order = []
    for n in ast.walk(fn):
        if isinstance(n, ast.Call) and ast.unparse(n.func) == "db.execute" and n.args \
                and isinstance(n.args[0], ast.Name) and n.args[0].id.startswith("_INSERT"):
            order.append((n.lineno, n.args[0].id))
    order = [name for _, name in sorted(order)]
    return found, order


# ---------------------------------------------------------------------------------------------


def generate():
    """Returns (text of GenPending.v, facts, deferred_error).

    `deferred_error` is a TranslatorError message for a fingerprint mismatch: the caller writes the
    file first (so that the model still runs against the changed code and the correspondence can
    produce a concrete witness) and then raises.
    """
    rc, ss, fs, need, kinds, static_states = enum_facts()
    from . import gen_pending_sql
    sql_lines = gen_pending_sql.generate_lines(kinds)
    ftree = parse_module(f"{CORE}/finalize.py")
    rc_funcs, conds = [], {}
    for fname in ["_report_pending_steps", "_report_missing_targets", "_report_glob_violations",
                  "report_unbuilt"]:
        text, cs = translate_rc_function(ftree, fname, rc)
        rc_funcs.append(text)
        conds[fname] = cs
    guards, cleanup = finalize_facts()
    early = serve_facts()
    builder_default = exit_path_facts(rc)
    tui_facts()
    fps, order = pending_fingerprints()

    lines = [
        "(* GENERATED by translator/gen_pending.py from /repo -- do not edit *)",
        "From Coq Require Import List NArith Bool.",
        "From SV Require Import lib.Bytes lib.SqlExpr model.PendingTypes.",
        "Import ListNotations.",
        "Open Scope N_scope.",
        "Definition memN (x : N) (l : list N) : bool := existsb (N.eqb x) l.",
        "(* enums.ReturnCode *)",
    ]
    for k in ["INTERNAL", "INTERRUPTED", "FAILED", "WARNING", "PENDING", "DRAINED"]:
        lines.append(f"Definition rc_{k} : N := {rc[k]}.")
    lines.append("(* enums.StepState *)")
    for k in ["PENDING", "RUNNING", "SUCCEEDED", "FAILED", "CHECKING"]:
        lines.append(f"Definition SS_{k} : N := {ss[k]}.")
    lines.append("(* enums.FileState *)")
    for k in sorted(fs, key=fs.get):
        lines.append(f"Definition FS_{k} : N := {fs[k]}.")
    lines.append(f"Definition FS_static_role : list N := [{'; '.join(str(v) for v in static_states)}].")
    lines.append("(* enums.Need *)")
    for k in ["OPTIONAL", "DEFAULT", "TARGET", "PLAN"]:
        lines.append(f"Definition NEED_{k} : N := {need[k]}.")
    lines.append("(* pending.py root kinds: lower wins *)")
    for k in ["ROOT_FILE", "ROOT_RESOURCE", "ROOT_FAILED", "ROOT_DEFERRED", "ROOT_OTHER",
              "ROOT_RUNNABLE", "BLOCK_STEP"]:
        lines.append(f"Definition K_{k} : N := {kinds[k]}.")
    lines += sql_lines
    lines += [
        "(* finalize.py, statement-level translation of everything that touches the return code *)",
    ]
    lines += rc_funcs
    lines += [
        "(* Builder.finalize: guards of the cleanup chain, in order; cleanup calls of the else branch *)",
        "Definition finalize_guards : list str := [",
        ";\n".join(f"  {coq_str(g)} (* {g} *)" for g in guards),
        "].",
        "Definition finalize_cleanup : list str := [" + "; ".join(coq_str(c) for c in cleanup) + "].",
        f"(* serve(): early return in the GraphError handler of reconcile_targets() *)",
        f"Definition serve_invalid_target_rc : N := rc_{early}.",
        "(* Builder.returncode before any phase has been finalized (attrs default) *)",
        f"Definition builder_default_rc : N := rc_{builder_default}.",
        "(* pending.py: order of the INSERT statements executed by _analyze_pending *)",
        "Definition analyze_exec_order : list str := [" + "; ".join(coq_str(o) for o in order) + "].",
        "(* pending.py: fingerprints of the statement templates *)",
    ]
    for k in EXPECTED_SQL:
        lines.append(f"(* {k}: {fps[k]} *)")
    text = "\n".join(lines) + "\n"

    err = None
    changed = [k for k in EXPECTED_SQL if fps[k] != EXPECTED_SQL[k]]
    if changed:
        err = "pending.py statements differ from the ones the model was written against: " + ", ".join(changed)
    else:
        try:
            order2, _ = gen_pending_sql.exec_order(gen_pending_sql._pending())
            gen_pending_sql.analyze_structure()
            if sorted(order2) != sorted(EXEC_ORDER):
                err = f"_analyze_pending executes another set of statements: {order2}"
        except TranslatorError as e:
            err = str(e)
    facts = {"rc": rc, "kinds": kinds, "conds": conds, "finalize_guards": guards,
             "fingerprints": fps, "exec_order": order}
    return text, facts, err
