"""SQL boolean fragment -> expression AST (generic, fail closed).

Grammar (SQLite syntax, case-insensitive keywords, `--` line comments ignored):

    expr   := and_e ( OR and_e )*
    and_e  := not_e ( AND not_e )*
    not_e  := NOT not_e | pred
    pred   := atom [ cmpop atom | [NOT] IN '(' int (',' int)* ')' | IS [NOT] NULL ]
    atom   := int | TRUE | FALSE | ident [ '.' ident ] | '(' expr ')'
    cmpop  := = | == | != | <> | < | <= | > | >=

Python AST (nested tuples):

    ("const", n) | ("col", table_or_None, name) | ("not", e) | ("and", a, b) | ("or", a, b)
    | ("cmp", op, a, b)  with op in {"eq","ne","lt","le","gt","ge"}
    | ("in", e, [n, ...]) | ("notin", e, [n, ...]) | ("isnull", e) | ("notnull", e)

Anything else (function calls, sub-selects, strings, arithmetic, BETWEEN, LIKE, CASE ...) raises
`TranslatorError`.  `to_coq(ast, col)` prints a term of `SV.lib.SqlExpr.sexpr C`, where `col(table,
name)` returns the Gallina constructor of the column (and raises for an unknown column).
`evaluate(ast, env)` is a reference evaluator with SQL three-valued logic (None = NULL) used by
harnesses that want to cross-check the Coq evaluator against SQLite.
"""

from __future__ import annotations

import re

from .astutil import TranslatorError

_TOKEN = re.compile(
    r"\s*(?:(?P<int>\d+)|(?P<id>[A-Za-z_][A-Za-z_0-9]*)|(?P<op><=|>=|<>|!=|==|=|<|>)|(?P<p>[().,]))"
)
_KEYWORDS = {"AND", "OR", "NOT", "IN", "IS", "NULL", "TRUE", "FALSE"}
_CMP = {"=": "eq", "==": "eq", "!=": "ne", "<>": "ne", "<": "lt", "<=": "le", ">": "gt", ">=": "ge"}


def strip_comments(sql: str) -> str:
    return "\n".join(line.split("--", 1)[0] for line in sql.splitlines())


def tokenize(sql: str):
    sql = strip_comments(sql)
    pos, out = 0, []
    while True:
        if sql[pos:].strip() == "":
            return out
        m = _TOKEN.match(sql, pos)
        if not m:
            raise TranslatorError(f"sqlexpr: cannot tokenize at {sql[pos:pos + 30]!r}")
        pos = m.end()
        if m.group("int") is not None:
            out.append(("int", int(m.group("int"))))
        elif m.group("id") is not None:
            word = m.group("id")
            if word.upper() in _KEYWORDS:
                out.append(("kw", word.upper()))
            else:
                out.append(("id", word))
        elif m.group("op") is not None:
            out.append(("op", m.group("op")))
        else:
            out.append(("p", m.group("p")))


class _Parser:
    def __init__(self, toks):
        self.toks = toks
        self.i = 0

    def peek(self, k=0):
        return self.toks[self.i + k] if self.i + k < len(self.toks) else ("eof", None)

    def take(self, kind=None, val=None):
        t = self.peek()
        if (kind is not None and t[0] != kind) or (val is not None and t[1] != val):
            raise TranslatorError(f"sqlexpr: expected {kind} {val}, found {t}")
        self.i += 1
        return t

    def expr(self):
        e = self.and_e()
        while self.peek() == ("kw", "OR"):
            self.take()
            e = ("or", e, self.and_e())
        return e

    def and_e(self):
        e = self.not_e()
        while self.peek() == ("kw", "AND"):
            self.take()
            e = ("and", e, self.not_e())
        return e

    def not_e(self):
        if self.peek() == ("kw", "NOT"):
            self.take()
            return ("not", self.not_e())
        return self.pred()

    def int_list(self):
        self.take("p", "(")
        vals = [self.take("int")[1]]
        while self.peek() == ("p", ","):
            self.take()
            vals.append(self.take("int")[1])
        self.take("p", ")")
        return vals

    def pred(self):
        a = self.atom()
        t = self.peek()
        if t[0] == "op":
            self.take()
            return ("cmp", _CMP[t[1]], a, self.atom())
        if t == ("kw", "IN"):
            self.take()
            return ("in", a, self.int_list())
        if t == ("kw", "NOT") and self.peek(1) == ("kw", "IN"):
            self.take()
            self.take()
            return ("notin", a, self.int_list())
        if t == ("kw", "IS"):
            self.take()
            if self.peek() == ("kw", "NOT"):
                self.take()
                self.take("kw", "NULL")
                return ("notnull", a)
            self.take("kw", "NULL")
            return ("isnull", a)
        return a

    def atom(self):
        t = self.peek()
        if t[0] == "int":
            self.take()
            return ("const", t[1])
        if t == ("kw", "TRUE"):
            self.take()
            return ("const", 1)
        if t == ("kw", "FALSE"):
            self.take()
            return ("const", 0)
        if t[0] == "id":
            self.take()
            if self.peek() == ("p", "."):
                self.take()
                name = self.take("id")[1]
                return ("col", t[1], name)
            return ("col", None, t[1])
        if t == ("p", "("):
            self.take()
            e = self.expr()
            self.take("p", ")")
            return e
        raise TranslatorError(f"sqlexpr: unexpected token {t}")


def parse(sql: str):
    """Parse a complete boolean SQL fragment; fail closed on anything outside the grammar."""
    p = _Parser(tokenize(sql))
    e = p.expr()
    if p.peek()[0] != "eof":
        raise TranslatorError(f"sqlexpr: trailing tokens {p.toks[p.i:p.i + 4]}")
    return e


def columns(e):
    """The set of (table, name) columns mentioned."""
    if e[0] == "col":
        return {(e[1], e[2])}
    out = set()
    for x in e[1:]:
        if isinstance(x, tuple):
            out |= columns(x)
    return out


def to_coq(e, col) -> str:
    k = e[0]
    if k == "const":
        return f"(SConst {e[1]})"
    if k == "col":
        return f"(SCol {col(e[1], e[2])})"
    if k == "not":
        return f"(SNot {to_coq(e[1], col)})"
    if k in ("and", "or"):
        return f"({'SAnd' if k == 'and' else 'SOr'} {to_coq(e[1], col)} {to_coq(e[2], col)})"
    if k == "cmp":
        op = {"eq": "CEq", "ne": "CNe", "lt": "CLt", "le": "CLe", "gt": "CGt", "ge": "CGe"}[e[1]]
        return f"(SCmp {op} {to_coq(e[2], col)} {to_coq(e[3], col)})"
    if k in ("in", "notin"):
        lst = "[" + "; ".join(str(v) for v in e[2]) + "]"
        return f"({'SIn' if k == 'in' else 'SNotIn'} {to_coq(e[1], col)} {lst})"
    if k in ("isnull", "notnull"):
        return f"({'SIsNull' if k == 'isnull' else 'SIsNotNull'} {to_coq(e[1], col)})"
    raise TranslatorError(f"sqlexpr: unknown node {k}")


def _truth(v):
    return None if v is None else (1 if v != 0 else 0)


def evaluate(e, env):
    """Reference evaluation; env maps (table, name) -> int or None (NULL). Returns int or None."""
    k = e[0]
    if k == "const":
        return e[1]
    if k == "col":
        return env[(e[1], e[2])]
    if k == "not":
        v = _truth(evaluate(e[1], env))
        return None if v is None else 1 - v
    if k == "and":
        a, b = _truth(evaluate(e[1], env)), _truth(evaluate(e[2], env))
        if a == 0 or b == 0:
            return 0
        return None if a is None or b is None else 1
    if k == "or":
        a, b = _truth(evaluate(e[1], env)), _truth(evaluate(e[2], env))
        if a == 1 or b == 1:
            return 1
        return None if a is None or b is None else 0
    if k == "cmp":
        a, b = evaluate(e[2], env), evaluate(e[3], env)
        if a is None or b is None:
            return None
        return int({"eq": a == b, "ne": a != b, "lt": a < b, "le": a <= b, "gt": a > b, "ge": a >= b}[e[1]])
    if k in ("in", "notin"):
        a = evaluate(e[1], env)
        if a is None:
            return None
        r = a in e[2]
        return int(r if k == "in" else not r)
    if k == "isnull":
        return int(evaluate(e[1], env) is None)
    if k == "notnull":
        return int(evaluate(e[1], env) is not None)
    raise TranslatorError(f"sqlexpr: unknown node {k}")
