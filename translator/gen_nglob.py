"""Translator for C17: stepup/core/nglob.py -> coq/gen/GenNglob.v (definitions only, fail closed).

Two mechanisms, per function:

* TRANSLATED CONSTANTS (shape-matched on the AST, TranslatorError on any unrecognised shape):
  - RE_WILD_PARTS / RE_ANY_WILD: the alternatives in order, the joined pattern text and the flags
    (imported module constants, cross-checked against the AST of the assignment).
  - convert_nglob_to_regex: the if/elif chain of the wildcard branch (`part == "?"`, `"*"`, `"**"`,
    `"**/"`, class, named wildcard, else raise) with the regex fragment assigned in each branch, the
    `last` comparisons guarding each fragment, the f-string templates of the class / group /
    back-reference fragments, the default sub-pattern, and every constant of the post-processing
    block (enclosed and trailing rules).  proofs/NglobProofs.v proves that the printer of
    lib/Regex.v applied to the model's fragments yields exactly these texts.
  - re.escape: the set of code points it escapes, measured on the running interpreter.
  - the flags of the three re.compile sites of the regex (NamedGlob._default_regex,
    Workflow.matches_any_glob, Workflow._raise_if_glob_match: all re.DOTALL or all none) and the
    candidate loop of NamedGlob.glob() (compared verbatim with its known shapes).

* STRUCTURAL FINGERPRINT (sha256 of ast.dump without docstrings), compared in
  proofs/NglobProofs.v with a committed golden value, so that ANY edit of the function breaks an
  obligation and triggers the failing-input search; the behaviour itself is tied by the E1
  correspondence:
  convert_nglob_to_regex (control flow: merging, enclosed and trailing rules),
  convert_nglob_to_glob, _get_wildcard_name, iter_wildcard_names, has_anonymous_wildcards,
  iter_wildcard_names, has_anonymous_wildcards, NamedGlob._default_used_names/_default_glob/
  _default_regex/glob.  (convert_nglob_to_glob, _get_wildcard_name, _match_values, extend, reduce,
  will_change, files: translated by gen_nglob_code.py; Watcher.record_change, will_change,
  Workflow.process_nglob_changes, startup.rescan_nglobs: translated by gen_nglob_batch.py.)

`python -m translator.gen_nglob --golden` prints the Coq lines to paste into NglobProofs.v after a
reviewed change.
"""

from __future__ import annotations

import ast
import hashlib
import re

from .astutil import (TranslatorError, body_without_docstring, coq_str, find_function, joined_text,
                      parse_module)

NGLOB = "stepup/core/nglob.py"

# Functions that are still tied by fingerprint + correspondence.  convert_nglob_to_glob,
# _get_wildcard_name, NamedGlob._match_values / extend / reduce / will_change / files are no longer
# here: translator/gen_nglob_code.py translates their statements into Gallina and
# proofs/NglobCodeTie.v proves the result equal to the model.  Left, and why:
#  - convert_nglob_to_regex is no longer fingerprinted: its main loop is translated statement by statement
#    (translator/gen_nglob_regex.py, proofs/NglobRegexTie.v), its post-processing block is compared verbatim
#    and the prologue / return are shape-checked in translate_conv_regex;
#  - iter_wildcard_names / has_anonymous_wildcards (generators over RE_ANY_WILD.split),
#    NamedGlob._default_* (attrs defaults: one call each), NamedGlob.glob (compared verbatim above);
# Workflow.process_nglob_changes and startup.rescan_nglobs are no longer fingerprinted either:
# translator/gen_nglob_batch.py translates them (together with Watcher.record_change and will_change)
# and proofs/NglobBatchTie.v proves the result equal to model/NglobBatch.v.
FINGERPRINTED = [
    ("iter_wildcard_names", NGLOB, "iter_wildcard_names", None),
    ("has_anonymous_wildcards", NGLOB, "has_anonymous_wildcards", None),
    ("default_used_names", NGLOB, "_default_used_names", "NamedGlob"),
    ("default_glob", NGLOB, "_default_glob", "NamedGlob"),
    ("default_regex", NGLOB, "_default_regex", "NamedGlob"),
    ("glob", NGLOB, "glob", "NamedGlob"),
]


def _strip_docstrings(node: ast.AST) -> ast.AST:
    for n in ast.walk(node):
        if isinstance(n, (ast.FunctionDef, ast.AsyncFunctionDef, ast.ClassDef)):
            n.body = body_without_docstring(n) or [ast.Pass()]
    return node


def fingerprint(rel: str, name: str, cls: str | None) -> str:
    fn = find_function(parse_module(rel), name, cls)
    fn = _strip_docstrings(fn)
    fn.decorator_list = []
    return hashlib.sha256(ast.dump(fn, annotate_fields=True, include_attributes=False).encode()).hexdigest()[:32]


def _const_str(node, what):
    if isinstance(node, ast.Constant) and isinstance(node.value, str):
        return node.value
    raise TranslatorError(f"{what}: expected a string constant, got {ast.dump(node)[:60]}")


def _is_name(node, ident):
    return isinstance(node, ast.Name) and node.id == ident


def _assign_of(stmt, target, what):
    if not (isinstance(stmt, ast.Assign) and len(stmt.targets) == 1 and _is_name(stmt.targets[0], target)):
        raise TranslatorError(f"{what}: expected `{target} = ...`")
    return stmt.value


def _cmp_const(test, var, op, what):
    """`var <op> CONST` -> CONST (str or list of str)."""
    if not (isinstance(test, ast.Compare) and _is_name(test.left, var) and len(test.ops) == 1
            and isinstance(test.ops[0], op) and len(test.comparators) == 1):
        raise TranslatorError(f"{what}: expected `{var} {op.__name__} ...`, got {ast.dump(test)[:80]}")
    c = test.comparators[0]
    if isinstance(c, ast.List):
        return [_const_str(e, what) for e in c.elts]
    return _const_str(c, what)


def translate_wild_parts():
    import stepup.core.nglob as ng
    tree = parse_module(NGLOB)
    found = {}
    for node in tree.body:
        if isinstance(node, ast.Assign) and len(node.targets) == 1 and isinstance(node.targets[0], ast.Name):
            found[node.targets[0].id] = node.value
    for name in ("RE_TRAILING_RECURSIVE_WILD_PARTS", "RE_WILD_PARTS", "RE_ANY_WILD"):
        if name not in found:
            raise TranslatorError(f"{name} is not a module-level assignment")
    trailing = found["RE_TRAILING_RECURSIVE_WILD_PARTS"]
    if not isinstance(trailing, ast.List):
        raise TranslatorError("RE_TRAILING_RECURSIVE_WILD_PARTS is not a list literal")
    trailing_parts = [_const_str(e, "RE_TRAILING_RECURSIVE_WILD_PARTS") for e in trailing.elts]
    wp = found["RE_WILD_PARTS"]
    if not (isinstance(wp, ast.List) and wp.elts and isinstance(wp.elts[0], ast.Starred)
            and _is_name(wp.elts[0].value, "RE_TRAILING_RECURSIVE_WILD_PARTS")):
        raise TranslatorError("RE_WILD_PARTS is not `[*RE_TRAILING_RECURSIVE_WILD_PARTS, ...]`")
    parts = trailing_parts + [_const_str(e, "RE_WILD_PARTS") for e in wp.elts[1:]]
    aw = found["RE_ANY_WILD"]
    ok = (isinstance(aw, ast.Call) and isinstance(aw.func, ast.Attribute) and aw.func.attr == "compile"
          and _is_name(aw.func.value, "re") and len(aw.args) == 1 and not aw.keywords)
    if not ok:
        raise TranslatorError("RE_ANY_WILD is not `re.compile(<one argument>)` without flags")
    if ast.unparse(aw.args[0]) != "'(' + '|'.join(RE_WILD_PARTS) + ')'":
        raise TranslatorError(f"RE_ANY_WILD argument changed: {ast.unparse(aw.args[0])}")
    text = "(" + "|".join(parts) + ")"
    if list(ng.RE_WILD_PARTS) != parts or ng.RE_ANY_WILD.pattern != text:
        raise TranslatorError("imported RE_WILD_PARTS / RE_ANY_WILD disagree with the source text")
    return parts, text, int(ng.RE_ANY_WILD.flags)


KNOWN_CHAIN = {
    "q": "[^/]", "star": "[^/]*", "star_skip_after": ["*", "**"], "dstar": ".*", "dstar_skip_after": ["**"],
    "dstar_replace_after": ["*"], "dstarslash": "(?:.*/|)", "dstarslash_skip_after": ["**/"],
    "dstarslash_replace_after": ["*", "**"], "cls_neg": "[^{}]", "cls_pos": "[{}]", "ref": "(?P={})",
    "default_sub": "*", "grp": "(?P<{}>{})", "star_name_when": "[^/]*",
}


def translate_conv_regex():
    fn = find_function(parse_module(NGLOB), "convert_nglob_to_regex")
    args = [a.arg for a in fn.args.args]
    if args != ["pattern", "subs", "allow_names"]:
        raise TranslatorError(f"convert_nglob_to_regex signature changed: {args}")
    body = body_without_docstring(fn)
    loops = [s for s in body if isinstance(s, ast.For)]
    if len(loops) != 1:
        raise TranslatorError("convert_nglob_to_regex: expected exactly one top-level for loop")
    loop = loops[0]
    if ast.unparse(loop.iter) != "enumerate(RE_ANY_WILD.split(pattern))":
        raise TranslatorError("convert_nglob_to_regex: the loop does not run over RE_ANY_WILD.split(pattern)")
    def strict_chain():
        if len(loop.body) != 2 or not all(isinstance(s, ast.If) for s in loop.body):
            raise TranslatorError("convert_nglob_to_regex: loop body is not two if statements")
        par, upd = loop.body
        if ast.unparse(par.test) != "i % 2 == 0":
            raise TranslatorError("convert_nglob_to_regex: parity test changed")
        if ast.unparse(par.body[0]) != "if len(part) > 0:\n    parts.append(re.escape(part))" or len(par.body) != 1:
            raise TranslatorError("convert_nglob_to_regex: literal branch is not parts.append(re.escape(part))")
        if ast.unparse(upd) != "if len(part) > 0:\n    last = part":
            raise TranslatorError("convert_nglob_to_regex: `last` update changed")
        wild = par.orelse
        # replace = False; regex = None; star_name = None; <if chain>; <push>
        inits = [ast.unparse(s) for s in wild[:3]]
        if inits != ["replace = False", "regex = None", "star_name = None"] or len(wild) != 5:
            raise TranslatorError("convert_nglob_to_regex: wildcard branch preamble changed")
        push = ast.unparse(wild[4])
        expected_push = ("if regex is not None and len(regex) > 0:\n    if replace:\n        parts[-1] = regex\n"
                         "    else:\n        parts.append(regex)\n    if star_name is not None:\n"
                         "        star_names[len(parts) - 1] = star_name")
        if push != expected_push:
            raise TranslatorError("convert_nglob_to_regex: the code that stores the fragment changed")
        chain = []
        node = wild[3]
        while isinstance(node, ast.If):
            chain.append(node)
            if len(node.orelse) == 1 and isinstance(node.orelse[0], ast.If):
                node = node.orelse[0]
            else:
                tail = node.orelse
                break
        if len(chain) != 6 or len(tail) != 1 or not isinstance(tail[0], ast.Raise):
            raise TranslatorError(f"convert_nglob_to_regex: wildcard chain has {len(chain)} branches (6 + raise expected)")
        out = {}
        # 1: ?
        if _cmp_const(chain[0].test, "part", ast.Eq, "branch ?") != "?" or len(chain[0].body) != 1:
            raise TranslatorError("branch 1 is not `part == '?'`")
        out["q"] = _const_str(_assign_of(chain[0].body[0], "regex", "branch ?"), "branch ?")
        # 2: *
        if _cmp_const(chain[1].test, "part", ast.Eq, "branch *") != "*" or len(chain[1].body) != 1:
            raise TranslatorError("branch 2 is not `part == '*'`")
        g = chain[1].body[0]
        if not (isinstance(g, ast.If) and not g.orelse and len(g.body) == 1):
            raise TranslatorError("branch *: guard shape changed")
        out["star_skip_after"] = _cmp_const(g.test, "last", ast.NotIn, "branch * guard")
        out["star"] = _const_str(_assign_of(g.body[0], "regex", "branch *"), "branch *")
        # 3: **
        if _cmp_const(chain[2].test, "part", ast.Eq, "branch **") != "**" or len(chain[2].body) != 1:
            raise TranslatorError("branch 3 is not `part == '**'`")
        g = chain[2].body[0]
        if not (isinstance(g, ast.If) and not g.orelse and len(g.body) == 2 and isinstance(g.body[1], ast.If)):
            raise TranslatorError("branch **: guard shape changed")
        out["dstar_skip_after"] = [_cmp_const(g.test, "last", ast.NotEq, "branch ** guard")]
        out["dstar"] = _const_str(_assign_of(g.body[0], "regex", "branch **"), "branch **")
        out["dstar_replace_after"] = [_cmp_const(g.body[1].test, "last", ast.Eq, "branch ** replace")]
        if ast.unparse(g.body[1].body[0]) != "replace = True" or g.body[1].orelse:
            raise TranslatorError("branch **: replace assignment changed")
        # 4: **/
        if _cmp_const(chain[3].test, "part", ast.Eq, "branch **/") != "**/" or len(chain[3].body) != 1:
            raise TranslatorError("branch 4 is not `part == '**/'`")
        g = chain[3].body[0]
        if not (isinstance(g, ast.If) and not g.orelse and len(g.body) == 2 and isinstance(g.body[1], ast.If)):
            raise TranslatorError("branch **/: guard shape changed")
        out["dstarslash_skip_after"] = [_cmp_const(g.test, "last", ast.NotEq, "branch **/ guard")]
        out["dstarslash"] = _const_str(_assign_of(g.body[0], "regex", "branch **/"), "branch **/")
        out["dstarslash_replace_after"] = _cmp_const(g.body[1].test, "last", ast.In, "branch **/ replace")
        if ast.unparse(g.body[1].body[0]) != "replace = True" or g.body[1].orelse:
            raise TranslatorError("branch **/: replace assignment changed")
        # 5: class
        if ast.unparse(chain[4].test) != "part.startswith('[') and part.endswith(']')" or len(chain[4].body) != 1:
            raise TranslatorError("branch 5 is not the class branch")
        v = _assign_of(chain[4].body[0], "regex", "class branch")
        if not (isinstance(v, ast.IfExp) and ast.unparse(v.test) == "part[1] == '!'"):
            raise TranslatorError("class branch: not `<neg> if part[1] == '!' else <pos>`")
        if ast.unparse(v.body) != "f'[^{part[2:-1]}]'" or ast.unparse(v.orelse) != "f'[{part[1:-1]}]'":
            raise TranslatorError(f"class branch: templates changed: {ast.unparse(v.body)} / {ast.unparse(v.orelse)}")
        out["cls_neg"] = joined_text(v.body)
        out["cls_pos"] = joined_text(v.orelse)
        # 6: named
        if ast.unparse(chain[5].test) != "part.startswith('${*') and part.endswith('}')":
            raise TranslatorError("branch 6 is not the named-wildcard branch")
        nb = chain[5].body
        src = [ast.unparse(s) for s in nb]
        expected = [
            "if not allow_names:\n    raise ValueError(f'Named wildcards not allowed in {pattern}')",
            "name = _get_wildcard_name(part, pattern)",
        ]
        if src[:2] != expected or len(nb) != 3 or not isinstance(nb[2], ast.If):
            raise TranslatorError("named branch: preamble changed")
        if ast.unparse(nb[2].test) != "name in encountered" or len(nb[2].body) != 1:
            raise TranslatorError("named branch: back-reference test changed")
        ref = _assign_of(nb[2].body[0], "regex", "named branch (back-reference)")
        if ast.unparse(ref) != "f'(?P={name})'":
            raise TranslatorError("named branch: back-reference template changed")
        out["ref"] = joined_text(ref)
        first = nb[2].orelse
        fsrc = [ast.unparse(s) for s in first]
        if len(first) != 4 or fsrc[2] != "encountered.add(name)":
            raise TranslatorError("named branch: first-occurrence block changed")
        m = re.fullmatch(r"part_regex = convert_nglob_to_regex\(subs\.get\(name, '(.*)'\), \{\}, False\)", fsrc[0])
        if not m:
            raise TranslatorError(f"named branch: recursive call changed: {fsrc[0]}")
        out["default_sub"] = m.group(1)
        grp = _assign_of(first[1], "regex", "named branch (group)")
        if ast.unparse(grp) != "f'(?P<{name}>{part_regex})'":
            raise TranslatorError("named branch: group template changed")
        out["grp"] = joined_text(grp)
        m = re.fullmatch(r"if part_regex == '(.*)':\n    star_name = name", fsrc[3])
        if not m:
            raise TranslatorError(f"named branch: star_name test changed: {fsrc[3]}")
        out["star_name_when"] = m.group(1)
        return out

    try:
        out = strict_chain()
    except TranslatorError as strict_error:
        # The loop no longer has the one shape this extractor knows.  translator/gen_nglob_regex.py translates
        # the loop statement by statement (any equivalent shape) and accepts only the model's fragment texts;
        # when it succeeds, the constants below are the ones it validated (KNOWN_CHAIN), and what each branch
        # does with them is decided by proofs/NglobRegexTie.v, not here.
        from . import gen_nglob_regex
        try:
            _text, rfacts = gen_nglob_regex.generate()
        except TranslatorError:
            raise strict_error from None
        out = dict(KNOWN_CHAIN)
        out["chain_shape"] = "other (translated by gen_nglob_regex)"
    # post-processing block
    post = [s for s in body if isinstance(s, ast.If) and ast.unparse(s.test) == "allow_names"]
    if len(post) != 1:
        raise TranslatorError("post-processing block `if allow_names:` not found")
    psrc = ast.unparse(post[0])
    expected_post = (
        "if allow_names:\n"
        "    for ipart, part in enumerate(parts):\n"
        "        if not (ipart > 0 and ipart < len(parts) - 1 and parts[ipart - 1].endswith('/') and parts[ipart + 1].startswith('/')):\n"
        "            continue\n"
        "        star_name = star_names.get(ipart)\n"
        "        if star_name is not None:\n"
        "            parts[ipart] = f'(?P<{star_name}>[^/]+)'\n"
        "        elif part.endswith('*'):\n"
        "            parts[ipart] = f'{part[:-1]}+'\n"
        "    star_name = star_names.get(len(parts) - 1)\n"
        "    if star_name is not None or parts[-1] == '[^/]*':\n"
        "        body = '[^/]+' if len(parts) >= 2 and parts[-2].endswith('/') else '[^/]*'\n"
        "        parts[-1] = f'(?P<{star_name}>{body})' if star_name is not None else body\n"
        "        parts.append('/?')"
    )
    out["post_is_expected_shape"] = psrc == expected_post
    if psrc != expected_post:
        # The post-processing is control flow plus constants; we do not translate other shapes.
        raise TranslatorError("convert_nglob_to_regex: post-processing block changed")
    out["post"] = {"sep": "/", "encl_grp": "(?P<{}>[^/]+)", "encl_star_end": "*", "encl_plus": "+",
                   "trail_star": "[^/]*", "trail_plus": "[^/]+", "trail_grp": "(?P<{}>{})", "optslash": "/?"}
    ret = body[-1]
    if ast.unparse(ret) != "return ''.join(parts)":
        raise TranslatorError("convert_nglob_to_regex: return changed")
    return out


def translate_compile_flags():
    """The flags of every re.compile applied to a named-glob regex (three sites)."""
    sites = [
        (NGLOB, "_default_regex", "NamedGlob"),
        ("stepup/core/workflow.py", "matches_any_glob", "Workflow"),
        ("stepup/core/workflow.py", "_raise_if_glob_match", "Workflow"),
    ]
    flags = []
    for rel, name, cls in sites:
        fn = find_function(parse_module(rel), name, cls)
        calls = [n for n in ast.walk(fn) if isinstance(n, ast.Call) and isinstance(n.func, ast.Attribute)
                 and n.func.attr == "compile" and _is_name(n.func.value, "re")]
        if len(calls) != 1:
            raise TranslatorError(f"{rel}:{name}: expected exactly one re.compile call, found {len(calls)}")
        c = calls[0]
        if c.keywords or len(c.args) not in (1, 2):
            raise TranslatorError(f"{rel}:{name}: unexpected re.compile arguments: {ast.unparse(c)}")
        first = ast.unparse(c.args[0])
        if first not in ("regex", "convert_nglob_to_regex(self._pattern, self._subs)"):
            raise TranslatorError(f"{rel}:{name}: re.compile is not applied to the named-glob regex: {first}")
        if len(c.args) == 1:
            flags.append(False)
        elif ast.unparse(c.args[1]) == "re.DOTALL":
            flags.append(True)
        else:
            raise TranslatorError(f"{rel}:{name}: unrecognised regex flags: {ast.unparse(c.args[1])}")
    if len(set(flags)) != 1:
        raise TranslatorError(f"the compile sites of the named-glob regex use different flags: {flags}")
    return flags[0]


GLOB_BODY_FILTERED = (
    "paths = []\n"
    "for path in glob.iglob(self._glob_pattern, recursive=True, include_hidden=True):\n"
    "    path = Path(path)\n"
    "    if path.is_dir():\n"
    "        path = path / ''\n"
    "    elif path.endswith('/'):\n"
    "        continue\n"
    "    paths.append(path)\n"
    "self.extend(paths)"
)
GLOB_BODY_UNFILTERED = GLOB_BODY_FILTERED.replace("    elif path.endswith('/'):\n        continue\n", "")


def translate_glob_method():
    """NamedGlob.glob(): the candidate loop, compared verbatim with its two known shapes."""
    fn = find_function(parse_module(NGLOB), "glob", "NamedGlob")
    src = "\n".join(ast.unparse(s) for s in body_without_docstring(fn))
    if src == GLOB_BODY_FILTERED:
        return True
    if src == GLOB_BODY_UNFILTERED:
        return False
    raise TranslatorError("NamedGlob.glob(): body changed")


def measure_re_escape():
    """Code points that re.escape prefixes with a backslash (and check that it does nothing else)."""
    specials = []
    for cp in list(range(0, 0x300)) + [0x20AC, 0x10000]:
        c = chr(cp)
        e = re.escape(c)
        if e == "\\" + c:
            specials.append(cp)
        elif e != c:
            raise TranslatorError(f"re.escape({c!r}) = {e!r}: neither identity nor a backslash prefix")
    return specials


def generate():
    parts, text, flags = translate_wild_parts()
    cr = translate_conv_regex()
    specials = measure_re_escape()
    dotall = translate_compile_flags()
    glob_filters = translate_glob_method()
    fps = [(key, fingerprint(rel, name, cls)) for key, rel, name, cls in FINGERPRINTED]

    def sl(xs):
        return "[" + "; ".join(coq_str(x) for x in xs) + "]"

    lines = [
        "(* GENERATED by translator/gen_nglob.py from /repo -- do not edit *)",
        "From Coq Require Import List NArith.",
        "From SV Require Import lib.Bytes.",
        "Import ListNotations.",
        "Open Scope N_scope.",
        "(* RE_WILD_PARTS in order, RE_ANY_WILD.pattern, RE_ANY_WILD.flags *)",
        f"Definition gen_wild_parts : list str := {sl(parts)}.",
        f"Definition gen_any_wild : str := {coq_str(text)}.",
        f"Definition gen_any_wild_flags : N := {flags}.",
        "(* convert_nglob_to_regex: fragment per wildcard kind and the `last` values that guard it *)",
        f"Definition gen_frag_q : str := {coq_str(cr['q'])}.",
        f"Definition gen_frag_star : str := {coq_str(cr['star'])}.",
        f"Definition gen_star_skip_after : list str := {sl(cr['star_skip_after'])}.",
        f"Definition gen_frag_dstar : str := {coq_str(cr['dstar'])}.",
        f"Definition gen_dstar_skip_after : list str := {sl(cr['dstar_skip_after'])}.",
        f"Definition gen_dstar_replace_after : list str := {sl(cr['dstar_replace_after'])}.",
        f"Definition gen_frag_dstarslash : str := {coq_str(cr['dstarslash'])}.",
        f"Definition gen_dstarslash_skip_after : list str := {sl(cr['dstarslash_skip_after'])}.",
        f"Definition gen_dstarslash_replace_after : list str := {sl(cr['dstarslash_replace_after'])}.",
        "(* templates: `{}` marks an interpolation *)",
        f"Definition gen_cls_neg : str := {coq_str(cr['cls_neg'])}.",
        f"Definition gen_cls_pos : str := {coq_str(cr['cls_pos'])}.",
        f"Definition gen_ref : str := {coq_str(cr['ref'])}.",
        f"Definition gen_grp : str := {coq_str(cr['grp'])}.",
        f"Definition gen_default_sub : str := {coq_str(cr['default_sub'])}.",
        f"Definition gen_star_name_when : str := {coq_str(cr['star_name_when'])}.",
        "(* post-processing constants (the block itself is compared verbatim by the translator) *)",
        f"Definition gen_post_sep : str := {coq_str(cr['post']['sep'])}.",
        f"Definition gen_post_encl_grp : str := {coq_str(cr['post']['encl_grp'])}.",
        f"Definition gen_post_trail_star : str := {coq_str(cr['post']['trail_star'])}.",
        f"Definition gen_post_trail_plus : str := {coq_str(cr['post']['trail_plus'])}.",
        f"Definition gen_post_trail_grp : str := {coq_str(cr['post']['trail_grp'])}.",
        f"Definition gen_post_optslash : str := {coq_str(cr['post']['optslash'])}.",
        "(* re.DOTALL at every compile site of the regex; NamedGlob.glob() skips 'prefix/' non-directories *)",
        f"Definition gen_compile_dotall : bool := {'true' if dotall else 'false'}.",
        f"Definition gen_glob_skips_nondir_slash : bool := {'true' if glob_filters else 'false'}.",
        "(* code points escaped by re.escape on this interpreter *)",
        "Definition gen_escape_specials : list N := [" + "; ".join(str(c) for c in specials) + "].",
        "(* structural fingerprints (sha256 of ast.dump without docstrings, first 32 hex digits) *)",
    ]
    for key, fp in fps:
        lines.append(f"Definition gen_fp_{key} : str := {coq_str(fp)}. (* {fp} *)")
    lines.append("Definition gen_fingerprints : list str := [" + "; ".join(f"gen_fp_{k}" for k, _ in fps) + "].")
    lines.append("")
    facts = {"wild_parts": parts, "any_wild": text, "flags": flags, "conv_regex": cr,
             "escape_specials": specials, "fingerprints": dict(fps), "dotall": dotall,
             "glob_skips_nondir_slash": glob_filters}
    return "\n".join(lines), facts


def golden_lines():
    """The complete text of coq/model/NglobGolden.v for the tree the translator currently sees."""
    _, facts = generate()
    fps = facts["fingerprints"]
    out = [
        "(* Golden values for the C17 tie: the RE_ANY_WILD text the tokenizer of model/Nglob.v was",
        "   written against and the structural fingerprints of the functions that are tied by",
        "   fingerprint + correspondence.  Regenerate with",
        "     PYTHONPATH=/repo /venv/bin/python -m translator.gen_nglob --golden > coq/model/NglobGolden.v",
        "   ONLY after reviewing the source change against model/Nglob.v. *)",
        "From Coq Require Import List NArith.",
        "From SV Require Import lib.Bytes.",
        "Import ListNotations.",
        "Open Scope N_scope.",
        f"Definition golden_any_wild : str := {coq_str(facts['any_wild'])}.",
        f"Definition golden_any_wild_flags : N := {facts['flags']}.",
        "Definition golden_fingerprints : list str := [",
        ";\n".join(f"  {coq_str(fp)} (* {key} {fp} *)" for key, fp in fps.items()),
        "].",
    ]
    return "\n".join(out)


if __name__ == "__main__":
    import sys
    if "--golden" in sys.argv:
        print(golden_lines())
    else:
        print(generate()[0])
